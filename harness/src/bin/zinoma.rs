// Pass-through binary used by the black-box checks: runs the repository's own `main()`.
fn main() {
    zinoma_under_test::verif::real_main()
}
