// Driver of the verification checks; all logic lives in-crate (`crate::verif`).
fn main() {
    std::process::exit(zinoma_under_test::verif::cli_main())
}
