#![no_main]
use libfuzzer_sys::fuzz_target;

// Arbitrary bytes as zinoma.yml: no panic, stable verdict and meaning (oracle in-crate).
fuzz_target!(|data: &[u8]| {
    zinoma_under_test::verif::fuzz::yaml_config(data);
});
