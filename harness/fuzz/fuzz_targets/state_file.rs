#![no_main]
use libfuzzer_sys::fuzz_target;

// Arbitrary bytes as a .checksums file: discarded or used, never a panic; differential with the
// independent decoder (oracle in-crate).
fuzz_target!(|data: &[u8]| {
    zinoma_under_test::verif::fuzz::state_file(data);
});
