//! C15: a files resource denotes exactly the matching regular files under its paths (INC).

use super::bb::*;
use super::prop::*;
use super::tree::*;
use crate::config::{ir, yaml};
use crate::domain::{Target, TargetId};
use proptest::prelude::*;
use serde::{Deserialize, Serialize};
use serde_json::{json, Value};
use std::collections::BTreeSet;
use std::os::unix::ffi::OsStrExt;
use std::path::{Path, PathBuf};

pub const EXT_VARIANTS: [Option<&[&str]>; 14] = [
    None,
    Some(&[]),
    Some(&[""]),
    Some(&["rs"]),
    Some(&[".rs"]),
    Some(&["tar.gz"]),
    Some(&[".txt", "rs"]),
    Some(&["rs~"]),
    Some(&["hidden"]),
    Some(&["Makefile"]),
    Some(&["gz", ""]),
    Some(&["RS"]),
    Some(&[".rs.bak"]),
    Some(&["swp", ".rs"]),
];

pub fn ext_variant(k: u8) -> Option<Vec<String>> {
    EXT_VARIANTS[k as usize % EXT_VARIANTS.len()].map(|v| v.iter().map(|s| s.to_string()).collect())
}

#[derive(Debug, Clone, Serialize, Deserialize)]
pub struct C15Case {
    pub tree: TreeSpec,
    /// (listed-path selectors, extension variant)
    pub resources: Vec<(Vec<u8>, u8)>,
}

pub fn c15_case() -> impl Strategy<Value = C15Case> {
    (
        tree_spec(16, false),
        prop::collection::vec((prop::collection::vec(any::<u8>(), 1..=4), 0u8..14), 1..=2),
    )
        .prop_map(|(tree, resources)| C15Case { tree, resources })
}

/// Candidate listed paths (relative to the project directory): existing directories and single
/// files of the tree (never symlinks, never inside or named `.zinoma`), plus missing ones.
pub fn listed_candidates(tree: &TreeSpec, base: &Path) -> Vec<String> {
    let mut c: Vec<String> = vec![".".into(), "missing".into(), "src/missing.rs".into()];
    let mut seen = BTreeSet::new();
    for e in &tree.entries {
        for k in 1..=e.path.len() {
            let comps = &e.path[..k];
            if comps.iter().any(|x| x == b".zinoma") {
                continue;
            }
            let s = match comps
                .iter()
                .map(|x| String::from_utf8(x.clone()))
                .collect::<Result<Vec<_>, _>>()
            {
                Ok(v) => v.join("/"),
                Err(_) => continue,
            };
            if s.contains('\n') || !seen.insert(s.clone()) {
                continue;
            }
            let p = os_path(base, comps);
            match std::fs::symlink_metadata(&p) {
                Ok(m) if m.file_type().is_symlink() => continue,
                Ok(m) => {
                    if m.is_dir() && k <= 2 {
                        // the same place reached through `..`: a listed path without a final name
                        c.push(format!("{}/..", s));
                    }
                    c.push(s)
                }
                Err(_) => {}
            }
        }
    }
    c
}

pub fn eval_c15(case: &C15Case) -> CaseResult {
    catch_case(
        "inc-c15:panic",
        |msg| json!({"engine": "INC-c15", "case": serde_json::to_value(case).unwrap(), "message": msg}),
        || eval_c15_inner(case),
    )
}

fn eval_c15_inner(case: &C15Case) -> CaseResult {
    let sb = Sandbox::new("c15");
    let base = sb.path("proj");
    case.tree.materialise(&base, &sb.path("outside"));
    let cands = listed_candidates(&case.tree, &base);
    let mut declared: Vec<(Vec<String>, Option<Vec<String>>)> = vec![];
    for (sels, ev) in &case.resources {
        let mut paths: Vec<String> = vec![];
        for &b in sels {
            let s = cands[(b as usize * cands.len()) >> 8].clone();
            if !paths.contains(&s) {
                paths.push(s);
            }
        }
        declared.push((paths, ext_variant(*ev)));
    }
    let input: Vec<Value> = declared
        .iter()
        .map(|(p, e)| match e {
            None => json!({ "paths": p }),
            Some(e) => json!({"paths": p, "extensions": e}),
        })
        .collect();
    write_project(&base, &json!({"targets": {"t": {"build": ":", "input": input}}}));
    let mut feats = case.tree.feature_classes();
    if declared.iter().any(|(p, _)| p.iter().any(|x| x.contains("missing"))) {
        feats.insert("missing-listed-path");
    }
    if declared.iter().any(|(p, _)| p.iter().any(|x| x != "." && !x.contains("missing") && base.join(x).is_file())) {
        feats.insert("single-file-listed");
    }
    let mut res = CaseResult {
        sample: json!({"declared": declared, "entries": case.tree.entries.iter().map(|e| format!("{} {:?}",
            e.path.iter().map(|c| String::from_utf8_lossy(c).to_string()).collect::<Vec<_>>().join("/"), e.kind)).collect::<Vec<_>>()}),
        ..Default::default()
    };
    let depth2 = case.tree.entries.iter().any(|e| e.path.len() >= 2);
    res.nontrivial = depth2
        && feats.iter().any(|f| {
            matches!(
                *f,
                "under-workdir" | "multi-dot" | "non-utf8-name" | "dot-file-or-name-is-extension" | "symlink-to-dir" | "missing-listed-path"
            )
        });
    res.fingerprint = format!("{:?}|{:?}", feats, declared.iter().map(|d| d.1.clone()).collect::<Vec<_>>());
    res.classes = feats.iter().map(|s| s.to_string()).collect();
    let replay = |msg: &str| json!({"engine": "INC-c15", "case": serde_json::to_value(case).unwrap(), "declared": declared, "message": msg});
    let fail = |mut res: CaseResult, sig: &str, msg: String| {
        res.signature = Some(format!("inc-c15:{}", sig));
        res.replay = replay(&msg);
        res.violation = Some(msg);
        res
    };
    let cfg = match yaml::Config::load(&base) {
        Ok(c) => c,
        Err(e) => {
            res.inconclusive = Some(format!("configuration rejected: {:#}", e));
            return res;
        }
    };
    let config: ir::Config = cfg.into();
    let id = TargetId {
        project_name: None,
        target_name: "t".into(),
    };
    let map = match config.try_into_domain_targets(std::slice::from_ref(&id)) {
        Ok(m) => m,
        Err(e) => {
            res.inconclusive = Some(format!("resolution failed: {:#}", e));
            return res;
        }
    };
    let files = match map.get(&id) {
        Some(Target::Build(b)) => b.input.files.clone(),
        _ => {
            res.inconclusive = Some("target missing".into());
            return res;
        }
    };
    if files.len() != declared.len() {
        return fail(res, "resource-count", format!("{} files resources declared, {} resolved", declared.len(), files.len()));
    }
    let canon_base = std::fs::canonicalize(&base).unwrap();
    let mut must = BTreeSet::new();
    let mut may = BTreeSet::new();
    for (k, (paths, exts)) in declared.iter().enumerate() {
        let want_exts = normalise_extensions(exts);
        if files[k].extensions != want_exts {
            return fail(
                res,
                "normalisation",
                format!("extensions {:?} normalised to {:?}, expected {:?}", exts, files[k].extensions, want_exts),
            );
        }
        let abs: Vec<PathBuf> = paths.iter().map(|p| canon_base.join(p)).collect();
        let got_abs: Vec<PathBuf> = files[k].paths.iter().map(|p| PathBuf::from(p.as_os_str())).collect();
        if abs != got_abs {
            return fail(res, "paths", format!("declared paths {:?} bound to {:?}", paths, got_abs));
        }
        let r = reference_listing(&abs, &want_exts);
        // the per-resource listing (what --clean uses)
        let got: BTreeSet<PathBuf> = async_std::task::block_on(crate::fs::list_files_in_paths(
            &files[k].paths,
            &files[k].extensions,
        ))
        .into_iter()
        .map(|p| PathBuf::from(p.as_os_str()))
        .collect();
        if let Some(m) = r.must.iter().find(|m| !got.contains(*m)) {
            return fail(
                res,
                "missing-file",
                format!("{:?} with extensions {:?}: regular file {:?} is not denoted", paths, exts, m),
            );
        }
        if let Some(x) = got.iter().find(|x| !r.must.contains(*x) && !r.may.contains(*x)) {
            return fail(
                res,
                "extra-file",
                format!("{:?} with extensions {:?}: {:?} is denoted but is not a matching regular file outside .zinoma", paths, exts, x),
            );
        }
        must.extend(r.must);
        may.extend(r.may);
        // the watcher-side predicate on every path of the tree
        for e in &case.tree.entries {
            let p = os_path(&canon_base, &e.path);
            let ap = async_std::path::Path::new(p.as_os_str());
            let z = !crate::work_dir::is_in_work_dir(ap)
                && crate::domain::matches_extensions(&p, &files[k].extensions);
            let name = p.file_name().unwrap().as_bytes().to_vec();
            let r = !e.path.iter().any(|c| c == b".zinoma") && name_matches(&name, &want_exts);
            if z != r {
                return fail(
                    res,
                    "event-predicate",
                    format!("event on {:?} with extensions {:?}: watcher rule says {}, the statement says {}", p, exts, z, r),
                );
            }
        }
    }
    // the union listing (what the incremental state uses)
    let got: BTreeSet<PathBuf> = async_std::task::block_on(crate::fs::list_files_in_resources(&files))
        .into_iter()
        .map(|p| PathBuf::from(p.as_os_str()))
        .collect();
    if let Some(m) = must.iter().find(|m| !got.contains(*m)) {
        return fail(res, "missing-file", format!("union listing misses {:?}", m));
    }
    if let Some(x) = got.iter().find(|x| !must.contains(*x) && !may.contains(*x)) {
        return fail(res, "extra-file", format!("union listing contains {:?}", x));
    }
    res
}

pub fn replay_c15(v: &Value) -> Result<CaseResult, String> {
    let c: C15Case = serde_json::from_value(v["case"].clone()).map_err(|e| format!("bad C15 case: {}", e))?;
    Ok(eval_c15(&c))
}
