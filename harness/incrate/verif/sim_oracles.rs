//! Property oracles over SIM histories. Each oracle only reports violations of *its own*
//! property; anomalies that belong to another property make the case "not evaluable" here.

use super::graph::*;
use super::hooks::Ev;
use super::sim::*;
use std::collections::{BTreeMap, BTreeSet};

#[derive(Debug, Clone, Default)]
pub struct Verdict {
    pub violation: Option<String>,
    /// Case could not be evaluated for this property (reason), e.g. step bound hit.
    pub inconclusive: Option<String>,
    pub nontrivial: bool,
    /// Distinctness fingerprint (only meaningful when nontrivial).
    pub fingerprint: String,
    /// Generator-health classes of this case.
    pub classes: Vec<String>,
}

impl Verdict {
    fn violation(msg: String) -> Self {
        Verdict {
            violation: Some(msg),
            ..Default::default()
        }
    }
}

fn base_classes(case: &SimCase) -> Vec<String> {
    let mut c: Vec<String> = case
        .graph
        .classes(&case.roots)
        .into_iter()
        .map(|s| s.to_string())
        .collect();
    if case.watch {
        c.push("watch".into());
    } else {
        c.push("one-shot".into());
    }
    if case.fail.iter().any(|&f| f != 0) {
        c.push("has-declared-failure".into());
    }
    if case.early_term {
        c.push("early-term".into());
    }
    if case.withhold {
        c.push("withhold-finishes".into());
    }
    if !case.notices.is_empty() {
        c.push("notices".into());
    }
    c
}

fn common_inconclusive(run: &SimRun) -> Option<String> {
    if let Some(e) = &run.config_error {
        return Some(format!("configuration rejected: {}", e));
    }
    if run.step_bound_hit {
        return Some("step bound hit (possible livelock)".into());
    }
    None
}

fn unexecuted_at(h: &Hist, k: usize) -> Vec<String> {
    let g = h.g();
    h.closure()
        .into_iter()
        .filter(|&i| g.targets[i].kind != Kind::Aggregate && !h.ready_before(i, k))
        .map(|i| g.ids(i))
        .collect()
}

fn any_root_service(case: &SimCase) -> bool {
    case.roots.iter().any(|&r| case.graph.has_service_behind(r))
}

// ---------------------------------------------------------------------------
// C04: one-shot runs terminate (deadlock oracle)

pub fn oracle_c04(case: &SimCase, run: &SimRun) -> Verdict {
    let h = Hist { case, run };
    let mut v = Verdict {
        classes: base_classes(case),
        ..Default::default()
    };
    if let Some(r) = common_inconclusive(run) {
        v.inconclusive = Some(r);
        return v;
    }
    debug_assert!(!case.watch && !case.early_term);
    let g = h.g();
    let fq = match run.final_quiescence_index {
        Some(k) => k,
        None => {
            v.inconclusive = Some("final quiescence not reached".into());
            return v;
        }
    };
    // non-trivial: a request reached a target with >= 2 requesters after it finished
    let mut late = Vec::new();
    for (k, e) in run.events.iter().enumerate() {
        if let Ev::Forward { from, to, what } = e {
            if what.starts_with("Requested") {
                if let Some(i) = g.index_of(to) {
                    if g.targets[i].kind != Kind::Aggregate && h.ready_before(i, k) {
                        late.push(format!("{}<-{}:{}", to, from, what));
                    }
                }
            }
        }
    }
    v.nontrivial = !late.is_empty();
    v.fingerprint = format!("{:?}|late={}|n={}", v.classes, late.len().min(4), h.closure().len());
    if !late.is_empty() {
        v.classes.push("late-request".into());
    }

    let unexec = unexecuted_at(&h, fq);
    if !unexec.is_empty() {
        return Verdict {
            violation: Some(format!(
                "deadlock: nothing left to deliver, no script running, yet never executed: {:?}",
                unexec
            )),
            ..v
        };
    }
    let r = any_root_service(case);
    if !r {
        if run.run_done_at_final_quiescence != Some(true) {
            return Verdict {
                violation: Some(
                    "no service requested and every target done, but the run did not return"
                        .into(),
                ),
                ..v
            };
        }
    }
    match h.run_result() {
        Some(Ok(())) => {}
        Some(Err(e)) => {
            return Verdict {
                violation: Some(format!("all scripts succeed but the run failed: {}", e)),
                ..v
            }
        }
        None => {
            return Verdict {
                violation: Some("the run never returned, even after termination".into()),
                ..v
            }
        }
    }
    if !run.terminated_clean || run.actors_exited != run.actors_spawned {
        return Verdict {
            violation: Some(format!(
                "shutdown did not complete: {} of {} target tasks exited",
                run.actors_exited, run.actors_spawned
            )),
            ..v
        };
    }
    v
}

// ---------------------------------------------------------------------------
// C08: exactly once

pub fn oracle_c08(case: &SimCase, run: &SimRun) -> Verdict {
    let h = Hist { case, run };
    let mut v = Verdict {
        classes: base_classes(case),
        ..Default::default()
    };
    if let Some(r) = common_inconclusive(run) {
        v.inconclusive = Some(r);
        return v;
    }
    let g = h.g();
    let clo = h.closure();
    // requesters per target inside the closure
    let mut requesters: BTreeMap<usize, usize> = BTreeMap::new();
    for &i in &clo {
        for j in g.edges(i) {
            *requesters.entry(j).or_default() += 1;
        }
    }
    for &r in &case.roots {
        *requesters.entry(r).or_default() += 1;
    }
    let shared: Vec<usize> = requesters
        .iter()
        .filter(|(_, &k)| k >= 2)
        .map(|(&i, _)| i)
        .collect();
    // arrival order class of duplicate requests at shared targets, relative to completion
    let mut order_class = Vec::new();
    for &i in &shared {
        let id = g.ids(i);
        let mut before = 0;
        let mut after = 0;
        for (k, e) in run.events.iter().enumerate() {
            if let Ev::Forward { to, what, .. } = e {
                if *to == id && what.starts_with("Requested") {
                    if h.ready_before(i, k) {
                        after += 1
                    } else {
                        before += 1
                    }
                }
            }
        }
        order_class.push((g.targets[i].kind, before.min(3), after.min(3)));
    }
    order_class.sort();
    order_class.dedup();
    v.nontrivial = !shared.is_empty();
    v.fingerprint = format!("{:?}|{:?}", v.classes, order_class);

    for i in 0..g.n() {
        let id = g.ids(i);
        let starts = h.count(|e| matches!(e, Ev::Start(t) if *t == id));
        let checks = h.count(|e| matches!(e, Ev::CheckBegin(t) if *t == id));
        let svc = h.count(|e| matches!(e, Ev::SvcStart(t) if *t == id));
        let spawned = h.count(|e| matches!(e, Ev::ActorSpawn(t) if *t == id));
        if starts > 1 || checks > 1 || svc > 1 {
            return Verdict {
                violation: Some(format!(
                    "{} executed more than once in a one-shot run (checks {}, script starts {}, service starts {})",
                    id, checks, starts, svc
                )),
                ..v
            };
        }
        if spawned > 1 {
            return Verdict {
                violation: Some(format!("{} instantiated {} times", id, spawned)),
                ..v
            };
        }
        if !clo.contains(&i) && (starts + checks + svc + spawned) > 0 {
            return Verdict {
                violation: Some(format!("{} is outside the closure but was touched", id)),
                ..v
            };
        }
    }
    // natural successful completion: everything exactly once
    let natural_success = run.run_done_at_final_quiescence == Some(true)
        && matches!(h.run_result(), Some(Ok(())))
        && !h.any_failure_event()
        && h.term_sent_index().is_none_or(|t| t > h.run_done_index().unwrap_or(0));
    if natural_success {
        let k = h.run_done_index().unwrap();
        for &i in &clo {
            let id = g.ids(i);
            match g.targets[i].kind {
                Kind::Build => {
                    let done = run.events[..k]
                        .iter()
                        .filter(|e| matches!(e, Ev::Skipped(t) | Ev::Completed(t) if *t == id))
                        .count();
                    if done != 1 {
                        return Verdict {
                            violation: Some(format!(
                                "successful run returned but build {} was executed or skipped {} times",
                                id, done
                            )),
                            ..v
                        };
                    }
                }
                Kind::Service => {
                    let done = run.events[..k]
                        .iter()
                        .filter(|e| matches!(e, Ev::SvcStart(t) if *t == id))
                        .count();
                    if done != 1 {
                        return Verdict {
                            violation: Some(format!(
                                "successful run returned but service {} was started {} times",
                                id, done
                            )),
                            ..v
                        };
                    }
                }
                Kind::Aggregate => {}
            }
        }
    }
    v
}

// ---------------------------------------------------------------------------
// C01: never started before dependencies are ready / latest word

fn last_word(h: &Hist, from: &str, to: &str, kind: &str, k: usize) -> Option<bool> {
    h.run.events[..k].iter().rev().find_map(|e| match e {
        Ev::Forward {
            from: f,
            to: t,
            what,
        } if f == from && t == to => {
            if what.starts_with(&format!("Ok:{}", kind)) {
                Some(true)
            } else if what.starts_with(&format!("Invalidated:{}", kind)) {
                Some(false)
            } else {
                None
            }
        }
        _ => None,
    })
}

pub fn oracle_c01(case: &SimCase, run: &SimRun) -> Verdict {
    let h = Hist { case, run };
    let mut v = Verdict {
        classes: base_classes(case),
        ..Default::default()
    };
    if let Some(r) = common_inconclusive(run) {
        v.inconclusive = Some(r);
        return v;
    }
    let g = h.g();
    let mut features = BTreeSet::new();
    let mut starts_of: BTreeMap<String, Vec<usize>> = BTreeMap::new();
    for (k, e) in run.events.iter().enumerate() {
        let (id, decision_point) = match e {
            Ev::CheckBegin(t) | Ev::SvcStart(t) | Ev::SvcSpawnFail(t) => (t, true),
            Ev::Start(t) | Ev::SpawnFail(t) => (t, false),
            Ev::Sent { from, what, .. } if what.starts_with("Ok:") => {
                // aggregate rule: an aggregate says Ok{kind} only while the latest word of each of
                // its own dependencies for that kind is Ok
                if let Some(i) = g.index_of(from) {
                    if g.targets[i].kind == Kind::Aggregate {
                        let kind = if what.starts_with("Ok:Build") { "Build" } else { "Service" };
                        for n in g.edges(i) {
                            let w = last_word(&h, &g.ids(n), from, kind, k);
                            if w != Some(true) {
                                return Verdict {
                                    violation: Some(format!(
                                        "aggregate {} announced {} although the latest word from its dependency {} is {:?}",
                                        from, what, g.ids(n), w.map(|b| if b {"Ok"} else {"Invalidated"})
                                    )),
                                    ..v
                                };
                            }
                        }
                        if !g.edges(i).is_empty() {
                            features.insert("aggregate-ack");
                        }
                    }
                }
                continue;
            }
            _ => continue,
        };
        let i = match g.index_of(id) {
            Some(i) => i,
            None => continue,
        };
        let leafs = g.leaf_deps(i);
        for &d in &leafs {
            if !h.ready_before(d, k) {
                return Verdict {
                    violation: Some(format!(
                        "{} started (event #{} {:?}) before its dependency {} was ready",
                        id,
                        k,
                        e,
                        g.ids(d)
                    )),
                    ..v
                };
            }
        }
        if decision_point {
            starts_of.entry(id.clone()).or_default().push(k);
            for n in g.edges(i) {
                for kind in ["Build", "Service"] {
                    let w = last_word(&h, &g.ids(n), id, kind, k);
                    if w != Some(true) {
                        return Verdict {
                            violation: Some(format!(
                                "{} started (event #{}) while the latest {} word received from {} is {}",
                                id,
                                k,
                                kind,
                                g.ids(n),
                                match w { None => "nothing", Some(false) => "Invalidated", Some(true) => "Ok" }
                            )),
                            ..v
                        };
                    }
                }
            }
            // non-triviality features
            if leafs.len() >= 2 {
                // did they become ready at different steps?
                features.insert("multi-dep");
            }
            if g.edges(i)
                .iter()
                .any(|&n| g.targets[n].kind == Kind::Aggregate && !g.edges(n).is_empty())
            {
                features.insert("dep-through-aggregate");
            }
        }
    }
    // watch: a notice for a dependency delivered between two starts of T
    if case.watch {
        for (id, ks) in &starts_of {
            if ks.len() >= 2 {
                let i = g.index_of(id).unwrap();
                let deps: BTreeSet<String> = g.trans_deps(i).iter().map(|&d| g.ids(d)).collect();
                for w in ks.windows(2) {
                    if run.events[w[0]..w[1]]
                        .iter()
                        .any(|e| matches!(e, Ev::Notify(t) if deps.contains(t)))
                    {
                        features.insert("dep-notice-between-starts");
                    }
                }
                features.insert("restarted");
            }
        }
    }
    v.nontrivial = !features.is_empty();
    v.fingerprint = format!(
        "{:?}|{:?}|starts={}",
        v.classes,
        features,
        starts_of.values().map(|k| k.len()).sum::<usize>().min(12)
    );
    for f in features {
        v.classes.push(f.to_string());
    }
    v
}

// ---------------------------------------------------------------------------
// C17: nothing waits for a non-dependency

/// Targets that are requested, whose dependencies are all ready, but that have not begun, at
/// message-quiescent points; a later start of such a target can only have been enabled by
/// something it does not depend on.
pub fn oracle_c17(case: &SimCase, run: &SimRun) -> Verdict {
    let h = Hist { case, run };
    let mut v = Verdict {
        classes: base_classes(case),
        ..Default::default()
    };
    if let Some(r) = common_inconclusive(run) {
        v.inconclusive = Some(r);
        return v;
    }
    let g = h.g();
    let clo = h.closure();
    let end = h
        .term_sent_index()
        .unwrap_or(run.events.len())
        .min(h.run_done_index().unwrap_or(run.events.len()));
    let mut waiting: BTreeMap<usize, usize> = BTreeMap::new(); // target -> first quiescent point
    let mut max_antichain = 0usize;
    let mut overlap_with_dep = false;
    for k in 0..end {
        match &run.events[k] {
            Ev::Quiescent {
                pending_msgs: 0,
                pending_decisions: 0,
                running,
            } => {
                for &i in &clo {
                    if g.targets[i].kind == Kind::Aggregate {
                        continue;
                    }
                    if h.begun_before(i, k) || waiting.contains_key(&i) {
                        continue;
                    }
                    if h.depends_on_declared_failure(i) {
                        continue;
                    }
                    // Requests propagate through the whole closure without waiting for anything
                    // (a target asks for all its dependencies, both kinds, on its first request):
                    // once no message is pending, every closure target counts as requested.
                    if g.leaf_deps(i).iter().all(|&d| h.ready_before(d, k)) {
                        waiting.insert(i, k);
                    }
                }
                if *running >= 2 {
                    max_antichain = max_antichain.max(*running);
                    // which targets are running now?
                    let mut live: BTreeSet<usize> = BTreeSet::new();
                    for e in &run.events[..k] {
                        match e {
                            Ev::Start(t) => {
                                if let Some(i) = g.index_of(t) {
                                    live.insert(i);
                                }
                            }
                            Ev::Finish(t, _) | Ev::Cancelled(t) => {
                                if let Some(i) = g.index_of(t) {
                                    live.remove(&i);
                                }
                            }
                            _ => {}
                        }
                    }
                    if live.iter().any(|&i| !g.edges(i).is_empty()) {
                        overlap_with_dep = true;
                    }
                }
            }
            Ev::CheckBegin(t) | Ev::SvcStart(t) | Ev::SvcSpawnFail(t) => {
                if let Some(i) = g.index_of(t) {
                    if let Some(&q) = waiting.get(&i) {
                        // what happened in between?
                        let between: Vec<String> = run.events[q..k]
                            .iter()
                            .filter_map(|e| match e {
                                Ev::Stim(s) => Some(s.clone()),
                                _ => None,
                            })
                            .collect();
                        return Verdict {
                            violation: Some(format!(
                                "{} had every dependency ready and no message pending at event #{}, yet only started at #{} after: {:?}",
                                t, q, k, between
                            )),
                            ..v
                        };
                    }
                }
            }
            _ => {}
        }
    }
    v.nontrivial = max_antichain >= 2 && overlap_with_dep;
    v.fingerprint = format!("{:?}|k={}", v.classes, max_antichain.min(8));
    if max_antichain >= 2 {
        v.classes.push(format!("antichain-{}", max_antichain.min(8)));
    }
    v
}

// ---------------------------------------------------------------------------
// C07: failures

fn names_target(msg: &str, id: &str) -> bool {
    msg.split(|c: char| !(c.is_alphanumeric() || c == '_' || c == '-' || c == ':'))
        .any(|tok| tok.trim_end_matches(':') == id)
}

pub fn oracle_c07(case: &SimCase, run: &SimRun) -> Verdict {
    let h = Hist { case, run };
    let mut v = Verdict {
        classes: base_classes(case),
        ..Default::default()
    };
    if let Some(r) = common_inconclusive(run) {
        v.inconclusive = Some(r);
        return v;
    }
    let g = h.g();
    let clo = h.closure();
    let failed = h.actually_failed();
    // (1) nothing above a failed target ever starts. In one-shot mode every declared failure
    // mode is permanent for the run; in watch mode a fail-once target (mode 3) recovers.
    for (k, e) in run.events.iter().enumerate() {
        if let Ev::CheckBegin(t) | Ev::Start(t) | Ev::SvcStart(t) | Ev::SvcSpawnFail(t) = e {
            if let Some(i) = g.index_of(t) {
                for d in g.trans_deps(i) {
                    let mode = case.fail.get(d).copied().unwrap_or(0);
                    let blocked = match mode {
                        0 | 4 => false,
                        3 if case.watch => false,
                        _ => true,
                    };
                    // a failing *aggregate* does not exist; services fail only at spawn (mode 2)
                    if blocked && g.targets[d].kind != Kind::Aggregate {
                        return Verdict {
                            violation: Some(format!(
                                "{} started (event #{}) although it depends on {} which can only fail",
                                t,
                                k,
                                g.ids(d)
                            )),
                            ..v
                        };
                    }
                }
            }
        }
    }
    // (1b) watch mode: a dependency told the target it was out of date (delivered), then failed:
    // the target must stay blocked
    if case.watch {
        for (k, e) in run.events.iter().enumerate() {
            if let Ev::CheckBegin(t) | Ev::SvcStart(t) | Ev::SvcSpawnFail(t) = e {
                if let Some(i) = g.index_of(t) {
                    for n in g.edges(i) {
                        if g.targets[n].kind != Kind::Build {
                            continue;
                        }
                        let nid = g.ids(n);
                        if last_word(&h, &nid, t, "Build", k) != Some(false) {
                            continue;
                        }
                        let last_finish = h.last_before(k, |e| {
                            matches!(e, Ev::Completed(x) | Ev::Skipped(x) | Ev::SpawnFail(x) if *x == nid)
                                || matches!(e, Ev::Finish(x, false) if *x == nid)
                        });
                        let failed = last_finish.is_some_and(|f| {
                            matches!(&run.events[f], Ev::Finish(_, false) | Ev::SpawnFail(_))
                        });
                        if failed {
                            return Verdict {
                                violation: Some(format!(
                                    "watch mode: {} started (event #{}) although its dependency {} announced it was out of date and then failed",
                                    t, k, nid
                                )),
                                ..v
                            };
                        }
                    }
                }
            }
        }
    }
    let first_fail = h.first(|e| {
        matches!(
            e,
            Ev::Finish(_, false) | Ev::SpawnFail(_) | Ev::SvcSpawnFail(_)
        )
    });
    let mut sibling_running = false;
    let mut has_dependent = false;
    if let Some(k) = first_fail {
        // was a sibling running when it failed?
        let mut live = 0i32;
        for e in &run.events[..k] {
            match e {
                Ev::Start(_) => live += 1,
                Ev::Finish(..) | Ev::Cancelled(_) => live -= 1,
                _ => {}
            }
        }
        // the failing script itself was counted when it is a Finish event
        if matches!(run.events[k], Ev::Finish(..)) {
            live -= 1;
        }
        sibling_running = live > 0;
        for f in &failed {
            if let Some(i) = g.index_of(f) {
                if clo.iter().any(|&t| g.trans_deps(t).contains(&i)) {
                    has_dependent = true;
                }
            }
        }
    }
    v.nontrivial = first_fail.is_some() && has_dependent && sibling_running;
    v.fingerprint = format!(
        "{:?}|failed={}|sib={}|dep={}",
        v.classes,
        failed.len().min(3),
        sibling_running,
        has_dependent
    );
    if first_fail.is_some() {
        v.classes.push("failure-happened".into());
    }

    if !case.watch {
        if !failed.is_empty() {
            // The error must surface: the run returns Err naming a target that actually failed,
            // unless a termination signal got there first.
            match h.run_result() {
                Some(Err(msg)) => {
                    if !failed.iter().any(|f| names_target(msg, f)) {
                        return Verdict {
                            violation: Some(format!(
                                "run failed with {:?}, which names none of the failed targets {:?}",
                                msg, failed
                            )),
                            ..v
                        };
                    }
                }
                Some(Ok(())) => {
                    let term = h.term_sent_index();
                    let rd = h.run_done_index().unwrap();
                    let early = term.is_some_and(|t| t < rd) && case.early_term;
                    // with early termination the signal may legitimately win the race
                    if !early {
                        return Verdict {
                            violation: Some(format!(
                                "targets {:?} failed but the run returned success",
                                failed
                            )),
                            ..v
                        };
                    }
                    // the signal was sent at final quiescence only because the error was lost?
                    if run.run_done_at_final_quiescence == Some(false) {
                        return Verdict {
                            violation: Some(format!(
                                "targets {:?} failed, the error never reached the run loop (idle until terminated)",
                                failed
                            )),
                            ..v
                        };
                    }
                }
                None => {
                    v.inconclusive = Some("run never returned".into());
                    return v;
                }
            }
        } else if let Some(Err(msg)) = h.run_result() {
            return Verdict {
                violation: Some(format!("no target failed but the run failed: {}", msg)),
                ..v
            };
        }
    } else {
        // watch mode: a failure never ends the run by itself
        if let (Some(rd), Some(ts)) = (h.run_done_index(), h.term_sent_index()) {
            if rd < ts {
                return Verdict {
                    violation: Some("watch mode: the run returned before termination".into()),
                    ..v
                };
            }
        } else if h.run_done_index().is_some() && h.term_sent_index().is_none() {
            return Verdict {
                violation: Some("watch mode: the run returned without termination".into()),
                ..v
            };
        }
        if let Some(Err(msg)) = h.run_result() {
            return Verdict {
                violation: Some(format!("watch mode: the run returned an error: {}", msg)),
                ..v
            };
        }
        // a notice to a target that failed makes it run again
        for (k, e) in run.events.iter().enumerate() {
            if let Ev::Notify(t) = e {
                let failed_before = run.events[..k]
                    .iter()
                    .rev()
                    .find_map(|e| match e {
                        Ev::Finish(x, ok) if x == t => Some(!*ok),
                        Ev::Completed(x) | Ev::Skipped(x) if x == t => Some(false),
                        _ => None,
                    })
                    .unwrap_or(false);
                let in_flight = {
                    let lb = h.last_before(k, |e| matches!(e, Ev::CheckBegin(x) if x == t));
                    let le = h.last_before(k, |e| {
                        matches!(e, Ev::Skipped(x) | Ev::Completed(x) | Ev::Cancelled(x) | Ev::SpawnFail(x) if x == t)
                            || matches!(e, Ev::Finish(x, false) if x == t)
                    });
                    lb.is_some() && le.is_none_or(|le| le < lb.unwrap())
                };
                let ended = case.early_term
                    && h.term_sent_index().is_some()
                    && run.run_done_at_final_quiescence.is_none();
                if failed_before && !in_flight && !ended {
                    let deps_ok = g
                        .index_of(t)
                        .map(|i| !h.depends_on_declared_failure(i))
                        .unwrap_or(false);
                    let again = run.events[k..]
                        .iter()
                        .any(|e| matches!(e, Ev::CheckBegin(x) if x == t));
                    if deps_ok && !again && run.final_quiescence_index.is_some() {
                        return Verdict {
                            violation: Some(format!(
                                "watch mode: {} failed, then its input changed (event #{}), but it never ran again",
                                t, k
                            )),
                            ..v
                        };
                    }
                    v.classes.push("notice-after-failure".into());
                }
            }
        }
        // independents end up done at final quiescence
        if let Some(fq) = run.final_quiescence_index {
            for &i in &clo {
                if g.targets[i].kind == Kind::Aggregate {
                    continue;
                }
                let mode = case.fail.get(i).copied().unwrap_or(0);
                if mode != 0 || h.depends_on_declared_failure(i) {
                    continue;
                }
                if !h.ready_before(i, fq) {
                    // (a deadlock unrelated to failures is C04/C06's business: only flag when a
                    // failure actually happened in this history)
                    if first_fail.is_some_and(|f| f < fq) && failed.iter().all(|f| {
                        g.index_of(f).is_some_and(|fi| !g.trans_deps(i).contains(&fi))
                    }) {
                        // make sure it is not the generic lost-wake-up: re-check without failure
                        // is done by C04/C06; here we only report when the target never *began*
                        if !h.begun_before(i, fq) && g.leaf_deps(i).iter().all(|&d| h.ready_before(d, fq)) && h.requested_before(i, fq) {
                            return Verdict {
                                violation: Some(format!(
                                    "watch mode: {} does not depend on a failed target, has all dependencies ready, but was never started",
                                    g.ids(i)
                                )),
                                ..v
                            };
                        }
                    }
                }
            }
        }
    }
    v
}

// ---------------------------------------------------------------------------
// C11: services

pub fn oracle_c11(case: &SimCase, run: &SimRun) -> Verdict {
    let h = Hist { case, run };
    let mut v = Verdict {
        classes: base_classes(case),
        ..Default::default()
    };
    if let Some(r) = common_inconclusive(run) {
        v.inconclusive = Some(r);
        return v;
    }
    let g = h.g();
    let clo = h.closure();
    let mut features = BTreeSet::new();
    // never two instances
    if let Some(m) = run.immediate.iter().find(|m| m.starts_with("service ")) {
        return Verdict {
            violation: Some(m.clone()),
            ..v
        };
    }
    let services: Vec<usize> = clo
        .iter()
        .copied()
        .filter(|&i| g.targets[i].kind == Kind::Service)
        .collect();
    for &s in &services {
        let id = g.ids(s);
        let restarts = h.count(|e| matches!(e, Ev::SvcStart(t) if *t == id));
        if restarts >= 2 {
            features.insert("restarted");
        }
        if restarts >= 3 {
            features.insert("restarted>=3");
        }
        if case.roots.contains(&s) && clo.iter().any(|&t| g.edges(t).contains(&s)) {
            features.insert("requested-and-depended-on");
        }
        if clo
            .iter()
            .any(|&t| g.targets[t].kind == Kind::Aggregate && g.edges(t).contains(&s))
        {
            features.insert("service-through-aggregate");
        }
        if clo
            .iter()
            .any(|&t| g.targets[t].kind == Kind::Build && g.edges(t).contains(&s))
        {
            features.insert("build-needs-service");
        }
    }
    v.nontrivial = !features.is_empty() && !services.is_empty();
    v.fingerprint = format!("{:?}|{:?}|svc={}", v.classes, features, services.len().min(4));
    for f in &features {
        v.classes.push(f.to_string());
    }

    // a build depending on a service: started after the service, service alive until it ends
    if !case.watch {
        for (k, e) in run.events.iter().enumerate() {
            if let Ev::Start(t) = e {
                let i = match g.index_of(t) {
                    Some(i) => i,
                    None => continue,
                };
                for d in g.leaf_deps(i) {
                    if g.targets[d].kind != Kind::Service {
                        continue;
                    }
                    let sid = g.ids(d);
                    let started = h.last_before(k, |e| matches!(e, Ev::SvcStart(x) if *x == sid));
                    if started.is_none() {
                        return Verdict {
                            violation: Some(format!(
                                "build {} started before the service {} it depends on",
                                t, sid
                            )),
                            ..v
                        };
                    }
                    // end of this run of t
                    let end = run.events[k..]
                        .iter()
                        .position(|e| {
                            matches!(e, Ev::Finish(x, _) | Ev::Cancelled(x) if x == t)
                        })
                        .map(|p| p + k)
                        .unwrap_or(run.events.len());
                    if let Some(stop) = run.events[started.unwrap()..end]
                        .iter()
                        .position(|e| matches!(e, Ev::SvcStop(x) if *x == sid))
                    {
                        return Verdict {
                            violation: Some(format!(
                                "service {} was stopped (event #{}) while build {} which depends on it was still running",
                                sid,
                                stop + started.unwrap(),
                                t
                            )),
                            ..v
                        };
                    }
                }
            }
        }
    }

    // keep-alive verdict (one-shot, nothing fails, no early signal)
    if !case.watch && !case.early_term && !h.any_failure_event() {
        if let Some(fq) = run.final_quiescence_index {
            let all_done = unexecuted_at(&h, fq).is_empty();
            let r = any_root_service(case);
            if all_done {
                match (r, run.run_done_at_final_quiescence) {
                    (true, Some(true)) => {
                        return Verdict {
                            violation: Some(
                                "a service was requested (directly or through an aggregate) but the run returned without a termination signal".into(),
                            ),
                            ..v
                        }
                    }
                    (false, Some(false)) => {
                        return Verdict {
                            violation: Some(
                                "no service was requested, everything is done, but the run stays alive".into(),
                            ),
                            ..v
                        }
                    }
                    _ => {}
                }
            }
        }
    }
    // after shutdown: every started service was stopped
    if run.terminated_clean {
        for &s in &services {
            let id = g.ids(s);
            let st = h.last(|e| matches!(e, Ev::SvcStart(t) if *t == id));
            let sp = h.last(|e| matches!(e, Ev::SvcStop(t) if *t == id));
            if let Some(st) = st {
                if sp.is_none_or(|sp| sp < st) {
                    return Verdict {
                        violation: Some(format!("service {} still running after shutdown", id)),
                        ..v
                    };
                }
            }
        }
    }
    v
}

// ---------------------------------------------------------------------------
// C06: watch mode converges

pub fn oracle_c06(case: &SimCase, run: &SimRun) -> Verdict {
    let h = Hist { case, run };
    let mut v = Verdict {
        classes: base_classes(case),
        ..Default::default()
    };
    if let Some(r) = common_inconclusive(run) {
        v.inconclusive = Some(r);
        return v;
    }
    debug_assert!(case.watch);
    let g = h.g();
    let clo = h.closure();
    let fq = match run.final_quiescence_index {
        Some(k) => k,
        None => {
            v.inconclusive = Some("final quiescence not reached".into());
            return v;
        }
    };
    // features: notices landing while the affected target or a dependency has a run in flight
    let mut features = BTreeSet::new();
    let in_flight_at = |t: &str, k: usize| -> bool {
        let lb = h.last_before(k, |e| matches!(e, Ev::CheckBegin(x) if x == t));
        let le = h.last_before(k, |e| {
            matches!(e, Ev::Skipped(x) | Ev::Completed(x) | Ev::Cancelled(x) | Ev::SpawnFail(x) if x == t)
                || matches!(e, Ev::Finish(x, false) if x == t)
        });
        lb.is_some() && le.is_none_or(|le| le < lb.unwrap())
    };
    for (k, e) in run.events.iter().enumerate() {
        if let Ev::Notify(t) = e {
            if in_flight_at(t, k) {
                features.insert("notice-during-own-run");
            } else {
                features.insert("notice-idle");
            }
            if let Some(i) = g.index_of(t) {
                for &d in &clo {
                    if g.trans_deps(d).contains(&i) && in_flight_at(&g.ids(d), k) {
                        features.insert("notice-in-dependency-while-dependent-runs");
                    }
                    if g.trans_deps(i).contains(&d) && in_flight_at(&g.ids(d), k) {
                        features.insert("notice-while-dependency-runs");
                    }
                }
            }
        }
    }
    let notified = h.count(|e| matches!(e, Ev::Notify(_)));
    if notified >= 3 {
        features.insert("burst>=3");
    }
    v.nontrivial = features.iter().any(|f| *f != "notice-idle");
    v.fingerprint = format!("{:?}|{:?}|n={}", v.classes, features, notified.min(6));
    for f in &features {
        v.classes.push(f.to_string());
    }

    // a run invalidated in flight must not be acknowledged
    for (k, e) in run.events.iter().enumerate() {
        if let Ev::Completed(t) | Ev::Skipped(t) = e {
            let begin = match h.last_before(k, |e| matches!(e, Ev::CheckBegin(x) if x == t)) {
                Some(b) => b,
                None => continue,
            };
            let invalidated = run.events[begin..k].iter().any(|e| match e {
                Ev::Notify(x) => x == t,
                Ev::Stim(s) => *s == format!("fs-notify {}", t),
                Ev::Forward { to, what, .. } => to == t && what.starts_with("Invalidated:Build"),
                _ => false,
            });
            if invalidated {
                let next_begin = run.events[k..]
                    .iter()
                    .position(|e| matches!(e, Ev::CheckBegin(x) if x == t))
                    .map(|p| p + k)
                    .unwrap_or(run.events.len());
                if let Some(p) = run.events[k..next_begin].iter().position(|e| {
                    matches!(e, Ev::Sent { from, what, .. } if from == t && what.starts_with("Ok:Build:actual"))
                }) {
                    return Verdict {
                        violation: Some(format!(
                            "{} was invalidated while its run was in flight (run began at #{}, ended at #{}), yet announced Ok at #{}",
                            t, begin, k, p + k
                        )),
                        ..v
                    };
                }
            }
        }
    }

    // a change noticed during (or after) a run that then fails is not lost: the target must
    // start a new run (unless something it depends on is itself stuck behind a failure)
    {
        let blocked_dep = |j: usize| -> bool {
            let jid = g.ids(j);
            let last_fail = h.last_before(fq, |e| {
                matches!(e, Ev::Finish(x, false) | Ev::SpawnFail(x) | Ev::SvcSpawnFail(x) if *x == jid)
            });
            let last_ok = h.last_before(fq, |e| {
                matches!(e, Ev::Completed(x) | Ev::Skipped(x) | Ev::SvcStart(x) if *x == jid)
            });
            last_fail.is_some() && last_ok.is_none_or(|o| o < last_fail.unwrap())
        };
        for (k, e) in run.events[..fq].iter().enumerate() {
            let t = match e {
                Ev::Finish(t, false) | Ev::SpawnFail(t) => t,
                _ => continue,
            };
            let i = match g.index_of(t) {
                Some(i) => i,
                None => continue,
            };
            if g.trans_deps(i).iter().any(|&d| blocked_dep(d)) {
                continue;
            }
            let begin = match h.last_before(k, |e| matches!(e, Ev::CheckBegin(x) if x == t)) {
                Some(b) => b,
                None => continue,
            };
            let fsn = format!("fs-notify {}", t);
            let last_notice = run.events[begin..fq]
                .iter()
                .rposition(|e| match e {
                    Ev::Notify(x) => x == t,
                    Ev::Stim(s) => *s == fsn,
                    _ => false,
                })
                .map(|p| p + begin);
            if let Some(m) = last_notice {
                let after = m.max(k);
                let again = run.events[after..fq]
                    .iter()
                    .any(|e| matches!(e, Ev::CheckBegin(x) if x == t));
                // a later failure of the same target is judged at its own event
                let later_fail = run.events[k + 1..fq]
                    .iter()
                    .any(|e| matches!(e, Ev::Finish(x, false) | Ev::SpawnFail(x) if x == t));
                if !again && !later_fail {
                    features.insert("change-during-run-that-fails");
                    return Verdict {
                        violation: Some(format!(
                            "{}: its input changed (event #{}) during or after the run that failed (run #{}..#{}), but it never started a new run",
                            t, m, begin, k
                        )),
                        ..v
                    };
                }
                v.classes.push("change-around-failing-run".into());
            }
        }
    }

    // final state: every target not blocked by a failure is up to date
    for &i in &clo {
        let id = g.ids(i);
        if g.targets[i].kind == Kind::Aggregate {
            continue;
        }
        // blocked by a failure that actually persists
        let blocked = |j: usize| -> bool {
            let jid = g.ids(j);
            let last_fail = h.last_before(fq, |e| {
                matches!(e, Ev::Finish(x, false) | Ev::SpawnFail(x) | Ev::SvcSpawnFail(x) if *x == jid)
            });
            let last_ok = h.last_before(fq, |e| {
                matches!(e, Ev::Completed(x) | Ev::Skipped(x) | Ev::SvcStart(x) if *x == jid)
            });
            last_fail.is_some() && last_ok.is_none_or(|o| o < last_fail.unwrap())
        };
        if blocked(i) || g.trans_deps(i).iter().any(|&j| blocked(j)) {
            continue;
        }
        match g.targets[i].kind {
            Kind::Build => {
                let rec = run.recorded.get(&id);
                let cur = run.final_capture.get(&id);
                if rec != cur {
                    return Verdict {
                        violation: Some(format!(
                            "watch mode idle, all changes delivered, but {} is not up to date: last completed run saw versions {:?}, current versions {:?}",
                            id, rec, cur
                        )),
                        ..v
                    };
                }
                // its last execution began after the last run of each build dependency ended
                let lb = h.last_before(fq, |e| matches!(e, Ev::CheckBegin(x) if *x == id));
                for d in g.leaf_deps(i) {
                    if g.targets[d].kind != Kind::Build {
                        continue;
                    }
                    let did = g.ids(d);
                    let ld = h.last_before(fq, |e| {
                        matches!(e, Ev::Completed(x) | Ev::Skipped(x) if *x == did)
                    });
                    if let (Some(lb), Some(ld)) = (lb, ld) {
                        if lb < ld {
                            return Verdict {
                                violation: Some(format!(
                                    "{}'s last execution began (#{}) before its dependency {} finished its last run (#{})",
                                    id, lb, did, ld
                                )),
                                ..v
                            };
                        }
                    }
                }
                // and after the last change notice it got
                let ln = h.last_before(fq, |e| matches!(e, Ev::Notify(x) if *x == id));
                if let (Some(lb), Some(ln)) = (lb, ln) {
                    if lb < ln {
                        return Verdict {
                            violation: Some(format!(
                                "{}'s last execution began (#{}) before its last input change (#{})",
                                id, lb, ln
                            )),
                            ..v
                        };
                    }
                }
            }
            Kind::Service => {
                let cur = run.final_capture.get(&id);
                let sc = run.svc_capture.get(&id);
                if sc != cur {
                    return Verdict {
                        violation: Some(format!(
                            "watch mode idle but service {} was not restarted after its last change: running instance saw {:?}, current {:?}",
                            id, sc, cur
                        )),
                        ..v
                    };
                }
                let ls = h.last_before(fq, |e| matches!(e, Ev::SvcStart(x) if *x == id));
                for d in g.leaf_deps(i) {
                    let did = g.ids(d);
                    let ld = match g.targets[d].kind {
                        Kind::Build => h.last_before(fq, |e| {
                            matches!(e, Ev::Completed(x) | Ev::Skipped(x) if *x == did)
                        }),
                        _ => h.last_before(fq, |e| matches!(e, Ev::SvcStart(x) if *x == did)),
                    };
                    if let (Some(ls), Some(ld)) = (ls, ld) {
                        if ls < ld {
                            return Verdict {
                                violation: Some(format!(
                                    "service {} was last started (#{}) before its dependency {} finished its last (re)run (#{})",
                                    id, ls, did, ld
                                )),
                                ..v
                            };
                        }
                    }
                }
                let ln = h.last_before(fq, |e| matches!(e, Ev::Notify(x) if *x == id));
                if let (Some(ls), Some(ln)) = (ls, ln) {
                    if ls < ln {
                        return Verdict {
                            violation: Some(format!(
                                "service {} was last started (#{}) before its last input change (#{})",
                                id, ls, ln
                            )),
                            ..v
                        };
                    }
                }
            }
            Kind::Aggregate => {}
        }
    }
    // the run is still alive (watching) at final quiescence
    if run.run_done_at_final_quiescence == Some(true) {
        return Verdict {
            violation: Some("watch mode: the run returned without a termination signal".into()),
            ..v
        };
    }
    v
}

// ---------------------------------------------------------------------------
// C20: aggregate == its dependencies (metamorphic, two runs)

#[derive(Debug, Clone, PartialEq, Eq)]
pub struct Observable {
    pub ran: BTreeSet<String>,
    pub skipped: BTreeSet<String>,
    pub services: BTreeSet<String>,
    pub verdict_ok: Option<bool>,
    pub keep_alive: Option<bool>,
    pub failed_named_ok: bool,
}

pub fn observe(case: &SimCase, run: &SimRun) -> Observable {
    let h = Hist { case, run };
    let end = run.final_quiescence_index.unwrap_or(run.events.len());
    let mut ran = BTreeSet::new();
    let mut skipped = BTreeSet::new();
    let mut services = BTreeSet::new();
    for e in &run.events[..end] {
        match e {
            Ev::Completed(t) => {
                ran.insert(t.clone());
            }
            Ev::Skipped(t) => {
                skipped.insert(t.clone());
            }
            Ev::SvcStart(t) => {
                services.insert(t.clone());
            }
            _ => {}
        }
    }
    let failed = h.actually_failed();
    let failed_named_ok = match h.run_result() {
        Some(Err(m)) => failed.iter().any(|f| names_target(m, f)),
        _ => true,
    };
    Observable {
        ran,
        skipped,
        services,
        verdict_ok: h.run_result().map(|r| r.is_ok()),
        keep_alive: run.run_done_at_final_quiescence.map(|d| !d),
        failed_named_ok,
    }
}
