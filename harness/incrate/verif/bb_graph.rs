//! Generated graphs materialised as real projects for the black-box engine.

use super::bb::*;
use super::graph::*;
use super::prop::*;
use super::report::*;
use proptest::prelude::*;
use serde_json::{json, Map, Value};
use std::collections::{BTreeMap, BTreeSet};
use std::path::{Path, PathBuf};
use std::time::Duration;

pub fn proj_rel(p: usize) -> String {
    if p == 0 {
        "proj".to_string()
    } else {
        format!("proj/p{}", p)
    }
}

/// Writes the project files of a graph; `body(i)` is the body of target i's script (builds).
pub fn write_graph_project(sb: &Sandbox, g: &Graph, body: &dyn Fn(usize) -> String) -> PathBuf {
    for p in 0..g.nproj {
        let mut targets = Map::new();
        for (i, t) in g.targets.iter().enumerate() {
            if t.proj != p {
                continue;
            }
            let deps: Vec<String> = t.deps.iter().map(|&j| g.reference(i, j)).collect();
            let input: Vec<Value> = t
                .outdeps
                .iter()
                .map(|&j| json!(format!("{}.output", g.reference(i, j))))
                .collect();
            let doc = match t.kind {
                Kind::Build => json!({
                    "dependencies": deps,
                    "build": build_script(&g.ids(i), &body(i)),
                    "input": input,
                }),
                Kind::Service => json!({
                    "dependencies": deps,
                    "service": service_script(&g.ids(i)),
                    "input": input,
                }),
                Kind::Aggregate => json!({ "dependencies": deps }),
            };
            targets.insert(g.tname(i), doc);
        }
        let mut doc = Map::new();
        if let Some(name) = g.proj_name(p) {
            doc.insert("name".into(), json!(name));
        }
        if p == 0 && g.nproj > 1 {
            let mut imports = Map::new();
            for q in 1..g.nproj {
                imports.insert(format!("p{}", q), json!(format!("p{}", q)));
            }
            doc.insert("imports".into(), Value::Object(imports));
        }
        doc.insert("targets".into(), Value::Object(targets));
        write_project(&sb.path(&proj_rel(p)), &Value::Object(doc));
    }
    sb.path("proj")
}

/// Command-line spelling of a requested target.
pub fn cli_name(g: &Graph, i: usize, qualified_if_possible: bool) -> String {
    if g.targets[i].proj == 0 && !(qualified_if_possible && g.root_named) {
        g.tname(i)
    } else {
        g.ids(i)
    }
}

// ---------------------------------------------------------------------------
// C04 BB-large: shape families with sizes up to 2 000

#[derive(Debug, Clone)]
pub struct LargeCase {
    pub shape: u8,
    pub size: usize,
    pub extra: u8,
}

pub fn large_case(max_size: usize) -> impl Strategy<Value = LargeCase> {
    // log-uniform size: 2^(1 + x * log2(max/2))
    (0u8..8, 0u16..=1000, any::<u8>()).prop_map(move |(shape, x, extra)| {
        let lg = (max_size as f64 / 2.0).log2();
        let size = (2.0 * (2f64).powf(lg * x as f64 / 1000.0)).round() as usize;
        LargeCase {
            shape,
            size: size.clamp(2, max_size),
            extra,
        }
    })
}

pub fn large_graph(c: &LargeCase) -> (Graph, Vec<usize>, &'static str) {
    let n = c.size;
    let b = |deps: Vec<usize>| GT {
        proj: 0,
        kind: Kind::Build,
        deps,
        outdeps: vec![],
    };
    let mut g = Graph {
        root_named: false,
        nproj: 1,
        targets: vec![],
        homonyms: false,
    };
    match c.shape {
        0 => {
            // chain
            for i in 0..n {
                g.targets.push(b(if i == 0 { vec![] } else { vec![i - 1] }));
            }
            (g, vec![n - 1], "chain")
        }
        1 => {
            // fan-in: n dependents of one target, gathered by an aggregate
            g.targets.push(b(vec![]));
            for _ in 0..n {
                g.targets.push(b(vec![0]));
            }
            g.targets.push(GT {
                proj: 0,
                kind: Kind::Aggregate,
                deps: (1..=n).collect(),
                outdeps: vec![],
            });
            (g, vec![n + 1], "fan-in")
        }
        2 => {
            // fan-out: one target with n dependencies
            for _ in 0..n {
                g.targets.push(b(vec![]));
            }
            g.targets.push(b((0..n).collect()));
            (g, vec![n], "fan-out")
        }
        3 => {
            // k-ary tree (k = 2..4), root last
            let k = 2 + (c.extra % 3) as usize;
            for i in 0..n {
                // children of node i are i*k+1..=i*k+k in heap order; we need deps with lower
                // index, so reverse the numbering: node j = n-1-i
                let _ = i;
                g.targets.push(b(vec![]));
            }
            for i in 0..n {
                let me = n - 1 - i;
                let mut deps = vec![];
                for c in 1..=k {
                    let child = i * k + c;
                    if child < n {
                        deps.push(n - 1 - child);
                    }
                }
                g.targets[me].deps = deps;
            }
            (g, vec![n - 1], "tree")
        }
        4 => {
            // layered DAG: layers of width w, each node depends on up to 3 nodes of the layer below
            let w = 1 + (c.extra as usize % 12);
            for i in 0..n {
                let layer = i / w;
                let mut deps = vec![];
                if layer > 0 {
                    let lo = (layer - 1) * w;
                    for d in 0..3usize {
                        let j = lo + (i * 7 + d * 5 + c.extra as usize) % w;
                        if j < i && !deps.contains(&j) {
                            deps.push(j);
                        }
                    }
                }
                g.targets.push(b(deps));
            }
            // request the whole last layer
            let last_layer = (n - 1) / w;
            let roots: Vec<usize> = (last_layer * w..n).collect();
            (g, roots, "layered")
        }
        _ => {
            // many requested roots sharing one dependency
            g.targets.push(b(vec![]));
            for _ in 0..n {
                g.targets.push(b(vec![0]));
            }
            let roots: Vec<usize> = (1..=n.min(400)).collect();
            (g, roots, "many-roots")
        }
    }
}

/// Shape 6: a short chain whose targets declare a command that prints 66 000 + size*100 bytes
/// (always more than one pipe buffer, up to 266 KB).
fn cmd_heavy_graph() -> Graph {
    let b = |deps: Vec<usize>| GT { proj: 0, kind: Kind::Build, deps, outdeps: vec![] };
    Graph { root_named: false, nproj: 1, targets: vec![b(vec![]), b(vec![0]), b(vec![1])], homonyms: false }
}

/// Shape 7: the same short chain, every target tracking (as input and as output) a directory that
/// holds, besides regular files, entries that are not regular files: a FIFO nobody writes to, a
/// socket, a dangling link, a link cycle, links to a directory and to /dev/zero, a deep nest.
fn plant_special_entries(dir: &Path, bits: u8) -> Vec<&'static str> {
    use std::os::unix::ffi::OsStrExt;
    let mut planted = vec![];
    for sub in ["tracked", "produced"] {
        let d = dir.join(sub);
        let _ = std::fs::create_dir_all(&d);
        let _ = std::fs::write(d.join("regular.txt"), b"regular\n");
        if bits & 64 != 0 {
            let _ = std::fs::write(d.join("future.txt"), b"dated in the future\n");
            set_mtime(&d.join("future.txt"), 2_200_000_000, 0);
            planted.push("future-dated-file");
        }
        if bits & 1 != 0 {
            let c = std::ffi::CString::new(d.join("pipe").as_os_str().as_bytes()).unwrap();
            unsafe { libc::mkfifo(c.as_ptr(), 0o644) };
            planted.push("fifo");
        }
        if bits & 2 != 0 {
            if let Ok(l) = std::os::unix::net::UnixListener::bind(d.join("sock")) {
                drop(l);
                planted.push("socket");
            }
        }
        if bits & 4 != 0 {
            let _ = std::os::unix::fs::symlink("/nonexistent/zv-dangling", d.join("dangling"));
            let _ = std::os::unix::fs::symlink("loop-b", d.join("loop-a"));
            let _ = std::os::unix::fs::symlink("loop-a", d.join("loop-b"));
            planted.push("dangling+cycle");
        }
        if bits & 8 != 0 {
            let _ = std::os::unix::fs::symlink("/dev/zero", d.join("zero"));
            planted.push("link-to-device");
        }
        if bits & 16 != 0 {
            let _ = std::os::unix::fs::symlink("..", d.join("up"));
            planted.push("link-to-parent-dir");
        }
        if bits & 32 != 0 {
            let mut p = d.clone();
            for k in 0..60 {
                p = p.join(format!("d{}", k));
            }
            let _ = std::fs::create_dir_all(&p);
            let _ = std::fs::write(p.join("deep.txt"), b"deep\n");
            planted.push("deep-nest");
        }
    }
    planted.sort();
    planted.dedup();
    planted
}

pub fn eval_large(c: &LargeCase) -> CaseResult {
    let cmd_heavy = c.shape == 6;
    let special = c.shape == 7;
    let (g, roots, shape) = if cmd_heavy {
        (cmd_heavy_graph(), vec![2], "cmd-heavy")
    } else if special {
        (cmd_heavy_graph(), vec![2], "special-entries")
    } else {
        large_graph(c)
    };
    let sb = Sandbox::new("c04");
    // the two top bits of `extra` choose the number of runtime threads (default, 1, 2, 4)
    let rt = [0u8, 1, 2, 4][(c.extra >> 6) as usize];
    set_runtime_threads(rt);
    let dir = write_graph_project(&sb, &g, &|_| String::new());
    let mut planted: Vec<&'static str> = vec![];
    if special {
        let bits = if c.extra & 63 == 0 { 127 } else { (c.extra & 63) | ((c.size as u8 & 1) << 6) };
        planted = plant_special_entries(&dir, bits);
        let path = dir.join("zinoma.yml");
        let mut doc: Value = serde_json::from_str(&std::fs::read_to_string(&path).unwrap()).unwrap();
        for (_, t) in doc["targets"].as_object_mut().unwrap().iter_mut() {
            t["input"] = json!([{"paths": ["tracked"]}]);
            t["output"] = json!([{"paths": ["produced"]}]);
        }
        std::fs::write(&path, serde_json::to_string_pretty(&doc).unwrap()).unwrap();
    }
    if cmd_heavy {
        // add the command input to every target
        let path = dir.join("zinoma.yml");
        let mut doc: Value = serde_json::from_str(&std::fs::read_to_string(&path).unwrap()).unwrap();
        let cmd = format!("head -c {} /dev/zero | tr '\\000' x", 66_000 + c.size * 100);
        for (_, t) in doc["targets"].as_object_mut().unwrap().iter_mut() {
            t["input"] = json!([{"cmd_stdout": cmd}]);
        }
        std::fs::write(&path, serde_json::to_string_pretty(&doc).unwrap()).unwrap();
    }
    let args: Vec<String> = roots.iter().map(|&r| cli_name(&g, r, false)).collect();
    let closure = g.closure(&roots);
    let budget = Duration::from_secs(60 + (closure.len() as u64) / 10);
    let out = spawn_zinoma(&sb, &dir, &args, &[]).wait_ext(budget, true, true);
    let trace = sb.trace();
    let max_fan = (0..g.n())
        .map(|i| g.edges(i).len())
        .max()
        .unwrap_or(0)
        .max({
            let mut dep_count: BTreeMap<usize, usize> = BTreeMap::new();
            for i in 0..g.n() {
                for j in g.edges(i) {
                    *dep_count.entry(j).or_default() += 1;
                }
            }
            dep_count.values().copied().max().unwrap_or(0)
        });
    let depth = if shape == "chain" { g.n() } else { 0 };
    let nontrivial = max_fan >= 33 || depth >= 50 || roots.len() >= 33 || cmd_heavy || (special && !planted.is_empty());
    let sample = json!({"shape": shape, "size": c.size, "targets": g.n(), "requested": roots.len(), "max_fan": max_fan, "non_regular_entries": planted, "runtime_threads": rt});
    let mut r = CaseResult {
        nontrivial,
        fingerprint: if special { format!("{}|{:?}", shape, planted) } else { format!("{}|{}", shape, (c.size as f64).log2().floor()) },
        classes: vec![
            format!("shape-{}", shape),
            format!("size-2^{}", (c.size as f64).log2().floor()),
            format!("runtime-threads-{}", rt),
        ],
        sample: sample.clone(),
        ..Default::default()
    };
    let replay = |msg: &str| {
        json!({"engine": "BB-large", "shape": c.shape, "size": c.size, "extra": c.extra, "summary": sample, "message": msg,
               "stderr_tail": out.stderr.chars().rev().take(600).collect::<String>().chars().rev().collect::<String>()})
    };
    if out.hung {
        let done = closure
            .iter()
            .filter(|&&i| finished(&trace, &g.ids(i)) > 0)
            .count();
        let msg = format!(
            "deadlock: {} of size {} ({} targets): zinoma idle (no child, all threads asleep, no CPU progress) with {} of {} targets built",
            shape, c.size, g.n(), done, closure.len()
        );
        r.signature = Some(format!("bb-large:deadlock:{}", shape));
        r.replay = replay(&msg);
        r.violation = Some(msg);
        return r;
    }
    if out.timed_out {
        r.inconclusive = Some("still busy at wall budget".into());
        return r;
    }
    if !out.success() {
        let msg = format!(
            "{} of size {}: every script succeeds but zinoma exited with {:?}",
            shape, c.size, out.status
        );
        r.signature = Some(format!("bb-large:exit:{}", shape));
        r.replay = replay(&msg);
        r.violation = Some(msg);
        return r;
    }
    for &i in &closure {
        if g.targets[i].kind == Kind::Build {
            let (s, f) = (started(&trace, &g.ids(i)), finished(&trace, &g.ids(i)));
            if s != 1 || f != 1 {
                let msg = format!(
                    "{} of size {}: exit 0 but target {} ran {} time(s) (finished {})",
                    shape,
                    c.size,
                    g.ids(i),
                    s,
                    f
                );
                r.signature = Some(format!("bb-large:count:{}", shape));
                r.replay = replay(&msg);
                r.violation = Some(msg);
                return r;
            }
        }
    }
    if special {
        // a second invocation exercises the up-to-date check against the records just made
        sb.clear_trace();
        let again = spawn_zinoma(&sb, &dir, &args, &[]).wait_ext(budget, true, true);
        if again.hung || (!again.timed_out && !again.success()) {
            let msg = format!(
                "special-entries ({:?}): the second invocation {} (the first one exited 0)",
                planted,
                if again.hung { "stays idle and unfinished".to_string() } else { format!("exited with {:?}", again.status) }
            );
            r.signature = Some(format!("bb-large:{}:special-entries-second-run", if again.hung { "deadlock" } else { "exit" }));
            r.replay = replay(&msg);
            r.violation = Some(msg);
            return r;
        }
    }
    r
}
