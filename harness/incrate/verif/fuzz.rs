//! In-process entry points of the libFuzzer targets (oracles inside the target).

use super::bb_c05::independent_decode;
use crate::config::{ir, yaml};
use crate::domain::{Resources, TargetId, TargetMetadata};
use crate::engine::incremental::{self, IncrementalRunResult};
use crate::engine::verif_access::BuildTerminationReport;
use std::collections::BTreeMap;
use std::path::PathBuf;
use std::sync::atomic::{AtomicU64, Ordering};

fn scratch() -> &'static PathBuf {
    static D: std::sync::OnceLock<PathBuf> = std::sync::OnceLock::new();
    D.get_or_init(|| {
        let base = super::bb::scratch_base().join(format!("zvfuzz{}", std::process::id()));
        let _ = std::fs::remove_dir_all(&base);
        std::fs::create_dir_all(base.join("proj/sub")).expect("scratch");
        std::fs::write(
            base.join("proj/sub/zinoma.yml"),
            "name: sub\ntargets:\n  t:\n    build: echo sub\n",
        )
        .unwrap();
        std::fs::canonicalize(&base).unwrap()
    })
}

/// Counters readable by the driver through a side file (how many inputs got past the parser).
static EXECS: AtomicU64 = AtomicU64::new(0);
static PARSED: AtomicU64 = AtomicU64::new(0);
static ACCEPTED: AtomicU64 = AtomicU64::new(0);

fn bump_side_file(name: &str) {
    let n = EXECS.fetch_add(1, Ordering::Relaxed) + 1;
    if n % 512 == 0 {
        if let Ok(p) = std::env::var("ZV_FUZZ_STATS") {
            let _ = std::fs::write(
                p,
                format!(
                    "{{\"target\":\"{}\",\"execs\":{},\"parsed\":{},\"accepted\":{}}}",
                    name,
                    n,
                    PARSED.load(Ordering::Relaxed),
                    ACCEPTED.load(Ordering::Relaxed)
                ),
            );
        }
    }
}

fn meaning(root: &std::path::Path) -> Result<BTreeMap<String, String>, ()> {
    let cfg = yaml::Config::load(root).map_err(|_| ())?;
    let config: ir::Config = cfg.into();
    let mut names = config.list_all_available_target_names();
    names.sort();
    names.dedup();
    let mut out = BTreeMap::new();
    out.insert("<names>".to_string(), names.join(","));
    for name in names.iter().take(6) {
        let cfg = yaml::Config::load(root).map_err(|_| ())?;
        let config: ir::Config = cfg.into();
        let id = match TargetId::try_parse(name, &config.root_project_name) {
            Ok(i) => i,
            Err(_) => {
                out.insert(name.clone(), "unparsable-name".into());
                continue;
            }
        };
        let m = match config.try_into_domain_targets(std::slice::from_ref(&id)) {
            Ok(map) => {
                let mut keys: Vec<String> = map.keys().map(|k| k.to_string()).collect();
                keys.sort();
                format!("ok:{}", keys.join(","))
            }
            Err(_) => "rejected".to_string(),
        };
        out.insert(name.clone(), m);
    }
    Ok(out)
}

pub fn yaml_config(data: &[u8]) {
    bump_side_file("yaml_config");
    let root = scratch().join("proj");
    std::fs::write(root.join("zinoma.yml"), data).expect("write");
    let first = meaning(&root);
    if std::str::from_utf8(data).is_ok() && serde_yaml::from_slice::<serde_yaml::Value>(data).is_ok() {
        PARSED.fetch_add(1, Ordering::Relaxed);
    }
    if let Ok(m) = &first {
        ACCEPTED.fetch_add(1, Ordering::Relaxed);
        // accepted => every accepted name obeys the documented syntax
        for name in m["<names>"].split(',').filter(|s| !s.is_empty()) {
            for part in name.split("::") {
                assert!(
                    super::projset::valid_name_regex_compatible(part),
                    "accepted a configuration with the invalid name {:?}",
                    name
                );
            }
        }
    }
    let second = meaning(&root);
    match (&first, &second) {
        (Ok(a), Ok(b)) => assert_eq!(a, b, "two loads of the same bytes disagree on the meaning of names"),
        (Err(_), Err(_)) => {}
        _ => panic!("two loads of the same bytes disagree on the verdict"),
    }
}

pub fn state_file(data: &[u8]) {
    bump_side_file("state_file");
    let root = scratch().join("state");
    let _ = std::fs::create_dir_all(root.join(".zinoma"));
    let _ = std::fs::create_dir_all(root.join("src"));
    if !root.join("src/a.txt").exists() {
        std::fs::write(root.join("src/a.txt"), b"a").unwrap();
    }
    std::fs::write(root.join(".zinoma/t.checksums"), data).expect("write");
    let md = TargetMetadata {
        id: TargetId {
            project_name: None,
            target_name: "t".into(),
        },
        project_dir: root.clone().into(),
        dependencies: vec![],
    };
    let input = Resources {
        files: vec![crate::domain::FilesResource {
            paths: vec![root.join("src").into()],
            extensions: None,
        }],
        cmds: vec![],
    };
    let output = Resources::new();
    let decodes = independent_decode(data).is_ok();
    if decodes {
        PARSED.fetch_add(1, Ordering::Relaxed);
    }
    let r = async_std::task::block_on(incremental::run(&md, &input, Some(&output), async {
        Ok(BuildTerminationReport::Completed)
    }));
    match r {
        Ok(IncrementalRunResult::Skipped) => {
            ACCEPTED.fetch_add(1, Ordering::Relaxed);
            assert!(decodes, "a state file that does not decode led to a skip");
        }
        Ok(_) => {}
        Err(e) => panic!("a state file led to an error instead of a rebuild: {:#}", e),
    }
}
