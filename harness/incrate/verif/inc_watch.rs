//! C16: the watcher reacts to relevant changes only, and survives any file name.
//! A real `TargetWatcher` (real inotify) over a scratch directory; ordering by barrier events
//! observed through hook H7 instead of sleeps.

use super::bb::*;
use super::hooks::{watch_tap, WATCH_TAP_ARMED};
use super::prop::*;
use super::tree::normalise_extensions;
use crate::domain::{FilesResource, Resources, TargetId};
use crate::engine::verif_access::{TargetInvalidatedMessage, TargetWatcher};
use async_std::channel;
use proptest::prelude::*;
use serde::{Deserialize, Serialize};
use serde_json::{json, Value};
use std::collections::BTreeSet;
use std::ffi::OsString;
use std::os::unix::ffi::OsStringExt;
use std::path::{Path, PathBuf};
use std::sync::atomic::{AtomicU64, Ordering};
use std::time::{Duration, Instant};

pub static WATCHER_PANICS: AtomicU64 = AtomicU64::new(0);
static CASE_COUNTER: AtomicU64 = AtomicU64::new(0);

pub fn install_panic_hook() {
    let prev = std::panic::take_hook();
    std::panic::set_hook(Box::new(move |info| {
        let name = std::thread::current().name().unwrap_or("").to_string();
        if name.contains("notify") {
            WATCHER_PANICS.fetch_add(1, Ordering::SeqCst);
            watcher_panic_log().lock().unwrap_or_else(|e| e.into_inner()).push(format!("{}: {}", name, info));
        } else if std::env::var("ZV_SHOW_PANICS").is_ok() {
            prev(info);
        }
    }));
}

pub fn watcher_panic_log() -> &'static std::sync::Mutex<Vec<String>> {
    static L: std::sync::OnceLock<std::sync::Mutex<Vec<String>>> = std::sync::OnceLock::new();
    L.get_or_init(|| std::sync::Mutex::new(Vec::new()))
}

/// File-name classes. `{e}` is replaced by the first extension of the group (with its dot).
pub const NAME_CLASSES: [(&str, &[u8]); 12] = [
    ("relevant", b"file{e}"),
    ("relevant-2", b"other.x{e}"),
    ("other-extension", b"file.nomatch_zz"),
    ("intellij-tmp", b"file{e}~"),
    ("vim-swp", b".file{e}.swp"),
    ("vim-swx", b".file{e}.swx"),
    ("non-utf8-relevant", b"bad\xff\xfe{e}"),
    ("non-utf8-irrelevant", b"\xfe\xfdzz"),
    ("long-relevant", b"LONGNAME{e}"),
    ("newline-relevant", b"new\nline{e}"),
    ("dot-only", b"{e}"),
    ("no-extension", b"Makefile_zz"),
];

#[derive(Debug, Clone, Serialize, Deserialize)]
pub struct WOp {
    /// 0 create, 1 write, 2 append, 3 rename-within, 4 rename-out, 5 rename-in, 6 delete,
    /// 7 mkdir+file-inside, 8 write under .zinoma
    pub kind: u8,
    pub name: u8,
    pub name2: u8,
    pub dir: u8,
}

#[derive(Debug, Clone, Serialize, Deserialize)]
pub struct C16Case {
    /// extension declaration of group A (index into EXTS) and optional group B
    pub ext_a: u8,
    pub ext_b: Option<u8>,
    pub ops: Vec<WOp>,
    /// Group B is declared on the SAME path as group A (two resources, one directory).
    #[serde(default)]
    pub same_path: bool,
}

/// Filters used here always contain something (with no filter the barrier files themselves
/// would be relevant). Groups whose declaration matches temporary-file names are included.
pub const EXTS: [&[&str]; 7] = [&["rs"], &[".txt", "md"], &["rs~"], &["swp", "rs"], &["tar.gz"], &["swx"], &[]];

pub fn c16_case() -> impl Strategy<Value = C16Case> {
    (
        0u8..7,
        prop::option::of(0u8..7),
        prop::collection::vec((0u8..9, 0u8..12, 0u8..12, 0u8..4), 1..=12),
        any::<bool>(),
    )
        .prop_map(|(ext_a, ext_b, ops, same_path)| C16Case {
            ext_a,
            ext_b: ext_b.filter(|b| EXTS[*b as usize] != EXTS[ext_a as usize]),
            ops: ops
                .into_iter()
                .map(|(kind, name, name2, dir)| WOp { kind, name, name2, dir })
                .collect(),
            same_path,
        })
}

/// None = no filter (every file below the path belongs to the resource).
fn exts_of(k: u8) -> Option<BTreeSet<String>> {
    normalise_extensions(&Some(EXTS[k as usize % EXTS.len()].iter().map(|s| s.to_string()).collect()))
}

fn make_name(class: u8, ext: &str) -> (Vec<u8>, &'static str) {
    let (label, pat) = NAME_CLASSES[class as usize % NAME_CLASSES.len()];
    let mut out: Vec<u8> = Vec::new();
    let mut i = 0;
    while i < pat.len() {
        if pat[i..].starts_with(b"{e}") {
            out.extend_from_slice(ext.as_bytes());
            i += 3;
        } else if pat[i..].starts_with(b"LONGNAME") {
            out.extend(std::iter::repeat(b'x').take(200));
            i += 8;
        } else {
            out.push(pat[i]);
            i += 1;
        }
    }
    (out, label)
}

fn is_tmp_name(name: &[u8]) -> bool {
    name.ends_with(b"~") || (name.starts_with(b".") && (name.ends_with(b".swp") || name.ends_with(b".swx")))
}

fn relevant(path_comps: &[&[u8]], name: &[u8], exts: &Option<BTreeSet<String>>) -> bool {
    !path_comps.iter().any(|c| *c == b".zinoma")
        && !is_tmp_name(name)
        && exts.as_ref().is_none_or(|x| x.iter().any(|e| name.ends_with(e.as_bytes())))
}

struct Group {
    dirs: Vec<PathBuf>,
    exts: Option<BTreeSet<String>>,
}

pub fn eval_c16(case: &C16Case) -> CaseResult {
    WATCH_TAP_ARMED.store(true, Ordering::SeqCst);
    let n = CASE_COUNTER.fetch_add(1, Ordering::SeqCst);
    let tid = TargetId {
        project_name: None,
        target_name: format!("w{}-{}", std::process::id(), n),
    };
    let tid_s = tid.to_string();
    let sb = Sandbox::new("c16");
    let base = std::fs::canonicalize(&sb.root).unwrap();
    for d in ["src", "src/nested", "lib", "elsewhere", "src/.zinoma", "lib/.zinoma"] {
        std::fs::create_dir_all(base.join(d)).unwrap();
    }
    std::fs::write(base.join("single_watched.txt"), b"x").unwrap();
    let ga = Group {
        dirs: vec![base.join("src")],
        exts: exts_of(case.ext_a),
    };
    let gb = case.ext_b.map(|b| Group {
        dirs: vec![base.join(if case.same_path { "src" } else { "lib" })],
        exts: exts_of(b),
    });
    let mut files = vec![FilesResource {
        paths: ga.dirs.iter().map(|p| p.clone().into()).collect(),
        extensions: ga.exts.clone(),
    }];
    if let Some(g) = &gb {
        files.push(FilesResource {
            paths: g.dirs.iter().map(|p| p.clone().into()).collect(),
            extensions: g.exts.clone(),
        });
    }
    let resources = Resources { files, cmds: vec![] };
    let (tx, rx) = channel::bounded::<TargetInvalidatedMessage>(1);
    let panics_before = WATCHER_PANICS.load(Ordering::SeqCst);
    let mut res = CaseResult::default();
    let watcher = match TargetWatcher::new(&tid, Some(&resources), &tx) {
        Ok(w) => w,
        Err(e) => {
            res.inconclusive = Some(format!("watcher could not be created: {:#}", e));
            return res;
        }
    };
    let groups: Vec<&Group> = std::iter::once(&ga).chain(gb.iter()).collect();
    let mut barrier_no = 0u64;
    // Watcher threads known to cover each barrier directory. How many watchers the code under
    // test creates is not assumed: the first barrier in a directory waits for one report and
    // then keeps listening for 100 ms for further threads; later barriers wait for all of them
    // (each watcher's event stream is ordered independently of the others).
    let known: std::cell::RefCell<std::collections::BTreeMap<PathBuf, BTreeSet<String>>> =
        std::cell::RefCell::new(std::collections::BTreeMap::new());
    // returns Err(reason) when the watcher stopped reporting
    let mut barrier = |barrier_no: &mut u64| -> Result<(), String> {
        for g in &groups {
            *barrier_no += 1;
            let bdir = g.dirs[0].join(".zinoma");
            let p = bdir.join(format!("zvbarrier-{}.zvb", *barrier_no));
            std::fs::write(&p, b"b").map_err(|e| e.to_string())?;
            let t0 = Instant::now();
            let mut first_seen: Option<Instant> = None;
            loop {
                {
                    let mut tap = watch_tap().lock().unwrap_or_else(|e| e.into_inner());
                    let threads: BTreeSet<String> = tap
                        .iter()
                        .filter(|(t, q, _)| *t == tid_s && q == &p)
                        .map(|(_, _, th)| format!("{:?}", th))
                        .collect();
                    let mut known = known.borrow_mut();
                    let done = match known.get_mut(&bdir) {
                        Some(k) => {
                            k.extend(threads.iter().cloned());
                            k.iter().all(|th| threads.contains(th))
                        }
                        None => {
                            if !threads.is_empty() && first_seen.is_none() {
                                first_seen = Some(Instant::now());
                            }
                            if first_seen.is_some_and(|f| f.elapsed() > Duration::from_millis(100)) {
                                known.insert(bdir.clone(), threads.clone());
                                true
                            } else {
                                false
                            }
                        }
                    };
                    if done {
                        tap.retain(|(t, _, _)| *t != tid_s);
                        break;
                    }
                }
                let dead = WATCHER_PANICS.load(Ordering::SeqCst) > panics_before;
                if (dead && t0.elapsed() > Duration::from_millis(1500)) || t0.elapsed() > Duration::from_secs(10) {
                    let _ = std::fs::remove_file(&p);
                    return Err(if dead { "watcher thread panicked".into() } else { "barrier event not seen within 10 s".into() });
                }
                std::thread::sleep(Duration::from_micros(300));
            }
            let _ = std::fs::remove_file(&p);
        }
        Ok(())
    };
    let drain = |rx: &channel::Receiver<TargetInvalidatedMessage>| -> usize {
        let mut k = 0;
        while rx.try_recv().is_ok() {
            k += 1;
        }
        k
    };
    let dirs: [(&str, usize); 4] = [("src", 0), ("src/nested", 0), ("lib", 1), ("src/.zinoma", 0)];
    let mut history: Vec<String> = vec![];
    let mut classes: BTreeSet<String> = BTreeSet::new();
    let mut saw_irrelevant_then_relevant = false;
    let mut saw_irrelevant = false;
    let mut odd_name = false;
    let mut violation: Option<(String, String)> = None;
    let mut dead: Option<String> = None;

    // initial barrier: the watcher is up
    if let Err(e) = barrier(&mut barrier_no) {
        dead = Some(e);
    }
    drain(&rx);
    'ops: for (k, op) in case.ops.iter().enumerate() {
        if dead.is_some() {
            break;
        }
        let (drel, gidx) = dirs[op.dir as usize % dirs.len()];
        let group = match groups.get(gidx) {
            Some(g) => *g,
            None => groups[0],
        };
        let (drel, group) = if gidx == 1 && gb.is_none() { ("src", groups[0]) } else { (drel, group) };
        // with both resources on one path, operations aimed at the second one happen there too
        let drel = if case.same_path && drel == "lib" { "src" } else { drel };
        let ext = group
            .exts
            .as_ref()
            .and_then(|x| x.iter().next().cloned())
            .unwrap_or_else(|| ".dat".to_string());
        let (name, label) = make_name(op.name, &ext);
        let (name2, label2) = make_name(op.name2, &ext);
        let dir = base.join(drel);
        let comps: Vec<&[u8]> = drel.split('/').map(|s| s.as_bytes()).collect();
        let p = dir.join(OsString::from_vec(name.clone()));
        let p2 = dir.join(OsString::from_vec(name2.clone()));
        let outside = base.join("elsewhere").join(OsString::from_vec(name.clone()));
        if std::str::from_utf8(&name).is_err() || name.contains(&b'\n') || name.len() > 100 {
            odd_name = true;
        }
        // every group that watches this directory counts (two resources may share a path)
        let watching: Vec<&&Group> = groups.iter().filter(|g| dir.starts_with(&g.dirs[0])).collect();
        let rel1 = watching.iter().any(|g| relevant(&comps, &name, &g.exts));
        let rel2 = watching.iter().any(|g| relevant(&comps, &name2, &g.exts));
        // a name that is nothing but a temporary-file suffix (".swp") is not clearly covered by
        // the patterns of the statement: no expectation
        let ambiguous = is_tmp_name(&name) && name.iter().filter(|&&b| b == b'.').count() < 2 && !name.ends_with(b"~");
        let mut expect: Option<bool> = None; // Some(true) = must trigger, Some(false) = must not
        let desc;
        match op.kind % 9 {
            0 | 1 => {
                // create / overwrite
                if std::fs::write(&p, format!("content {}", k)).is_err() {
                    continue 'ops;
                }
                expect = Some(rel1);
                desc = format!("write {}/{}", drel, label);
            }
            2 => {
                use std::io::Write;
                match std::fs::OpenOptions::new().append(true).create(true).open(&p) {
                    Ok(mut f) => {
                        let _ = f.write_all(b"+");
                    }
                    Err(_) => continue 'ops,
                }
                expect = Some(rel1);
                desc = format!("append {}/{}", drel, label);
            }
            3 => {
                if !p.exists() && std::fs::write(&p, b"r").is_err() {
                    continue 'ops;
                }
                // settle the creation first so that only the rename is judged
                if barrier(&mut barrier_no).is_err() {
                    dead = Some("watcher stopped".into());
                    break 'ops;
                }
                drain(&rx);
                if p == p2 || std::fs::rename(&p, &p2).is_err() {
                    continue 'ops;
                }
                expect = Some(rel1 || rel2);
                desc = format!("rename {}/{} -> {}", drel, label, label2);
            }
            4 => {
                if !p.exists() && std::fs::write(&p, b"r").is_err() {
                    continue 'ops;
                }
                if barrier(&mut barrier_no).is_err() {
                    dead = Some("watcher stopped".into());
                    break 'ops;
                }
                drain(&rx);
                if std::fs::rename(&p, &outside).is_err() {
                    continue 'ops;
                }
                expect = Some(rel1);
                desc = format!("rename-out {}/{}", drel, label);
            }
            5 => {
                if std::fs::write(&outside, b"in").is_err() || std::fs::rename(&outside, &p).is_err() {
                    continue 'ops;
                }
                expect = Some(rel1);
                desc = format!("rename-in {}/{}", drel, label);
            }
            6 => {
                if !p.exists() && std::fs::write(&p, b"d").is_err() {
                    continue 'ops;
                }
                if barrier(&mut barrier_no).is_err() {
                    dead = Some("watcher stopped".into());
                    break 'ops;
                }
                drain(&rx);
                if std::fs::remove_file(&p).is_err() {
                    continue 'ops;
                }
                expect = Some(rel1);
                desc = format!("delete {}/{}", drel, label);
            }
            7 => {
                // new directory, then (after the watch on it is registered) a file inside
                let nd = dir.join(format!("newdir{}", k));
                if std::fs::create_dir(&nd).is_err() {
                    continue 'ops;
                }
                if barrier(&mut barrier_no).is_err() {
                    dead = Some("watcher stopped".into());
                    break 'ops;
                }
                // notify registers the watch on a new directory some time after it saw the
                // mkdir: probe with irrelevant files until events from inside are reported
                let t0 = Instant::now();
                let mut registered = false;
                let mut probe_no = 0;
                while t0.elapsed() < Duration::from_secs(5) && !registered {
                    probe_no += 1;
                    let q = nd.join(format!("zvprobe-{}.zvb", probe_no));
                    let _ = std::fs::write(&q, b"p");
                    let t1 = Instant::now();
                    while t1.elapsed() < Duration::from_millis(20) {
                        let tap = watch_tap().lock().unwrap_or_else(|e| e.into_inner());
                        let need = known
                            .borrow()
                            .iter()
                            .filter(|(d, _)| q.starts_with(d.parent().unwrap_or(d)))
                            .map(|(_, k)| k.len())
                            .max()
                            .unwrap_or(1)
                            .max(1);
                        let threads: BTreeSet<String> = tap
                            .iter()
                            .filter(|(t, x, _)| *t == tid_s && x == &q)
                            .map(|(_, _, th)| format!("{:?}", th))
                            .collect();
                        if threads.len() >= need {
                            registered = true;
                            break;
                        }
                        drop(tap);
                        std::thread::sleep(Duration::from_micros(300));
                    }
                    let _ = std::fs::remove_file(&q);
                }
                if !registered {
                    continue 'ops;
                }
                if barrier(&mut barrier_no).is_err() {
                    dead = Some("watcher stopped".into());
                    break 'ops;
                }
                drain(&rx); // directory events and probes carry no expectation
                let inner = nd.join(OsString::from_vec(name.clone()));
                if std::fs::write(&inner, b"inner").is_err() {
                    continue 'ops;
                }
                expect = Some(rel1);
                desc = format!("mkdir+write {}/newdir/{}", drel, label);
            }
            _ => {
                let wd = base.join("src/.zinoma");
                let q = wd.join(OsString::from_vec(name.clone()));
                if std::fs::write(&q, format!("state {}", k)).is_err() {
                    continue 'ops;
                }
                expect = Some(false);
                desc = format!("write src/.zinoma/{}", label);
            }
        }
        if ambiguous || (is_tmp_name(&name2) && name2.iter().filter(|&&b| b == b'.').count() < 2 && !name2.ends_with(b"~") && op.kind % 9 == 3) {
            expect = None;
        }
        match barrier(&mut barrier_no) {
            Ok(()) => {}
            Err(e) => {
                history.push(format!("{} => watcher dead ({})", desc, e));
                dead = Some(e);
                break 'ops;
            }
        }
        let got = drain(&rx);
        history.push(format!("{} => {} message(s), expected {:?}", desc, got, expect));
        classes.insert(format!("op-{}", desc.split(' ').next().unwrap_or("")));
        classes.insert(format!("name-{}", label));
        match expect {
            Some(true) => {
                if saw_irrelevant {
                    saw_irrelevant_then_relevant = true;
                }
                // confirmation: a watcher not yet known to the barrier gets 300 ms more
                let got = if got == 0 {
                    std::thread::sleep(Duration::from_millis(300));
                    drain(&rx)
                } else {
                    got
                };
                if got == 0 {
                    violation = Some(("missed".into(), format!("{}: a change to a declared input produced no invalidation", desc)));
                    break 'ops;
                }
            }
            Some(false) => {
                saw_irrelevant = true;
                if got > 0 {
                    violation = Some(("spurious".into(), format!("{}: a change outside the declared inputs triggered the target", desc)));
                    break 'ops;
                }
            }
            None => {}
        }
    }
    // survival probe
    if dead.is_none() && violation.is_none() {
        let ext = ga
            .exts
            .as_ref()
            .and_then(|x| x.iter().next().cloned())
            .unwrap_or_else(|| ".dat".to_string());
        let p = base.join("src").join(format!("probe{}", ext));
        let (pname, _) = (format!("probe{}", ext), ());
        if relevant(&[b"src"], pname.as_bytes(), &ga.exts) {
            let _ = std::fs::write(&p, b"probe");
            match barrier(&mut barrier_no) {
                Ok(()) => {
                    if drain(&rx) == 0 {
                        violation = Some(("deaf".into(), "after the sequence a change to a declared input no longer triggers the target".into()));
                    }
                }
                Err(e) => dead = Some(e),
            }
        }
    }
    if let Some(e) = &dead {
        let panicked = WATCHER_PANICS.load(Ordering::SeqCst) > panics_before;
        if panicked {
            let log = watcher_panic_log().lock().unwrap_or_else(|e| e.into_inner()).last().cloned().unwrap_or_default();
            violation = Some(("watcher-panic".into(), format!("the watcher thread died ({}) and later changes are no longer reported; last step: {}", log.lines().next().unwrap_or(""), history.last().cloned().unwrap_or_default())));
        } else {
            res.inconclusive = Some(e.clone());
        }
    }
    // drop the watcher defensively (notify's Drop unwraps on a dead event loop)
    let _ = std::panic::catch_unwind(std::panic::AssertUnwindSafe(move || drop(watcher)));
    {
        let mut tap = watch_tap().lock().unwrap_or_else(|e| e.into_inner());
        tap.retain(|(t, _, _)| *t != tid_s);
    }
    res.nontrivial = saw_irrelevant_then_relevant || odd_name;
    res.fingerprint = format!("{:?}|{}|{:?}", classes, case.ext_a, case.ext_b);
    res.classes = classes.into_iter().collect();
    res.sample = json!({"extensions_a": EXTS[case.ext_a as usize % EXTS.len()], "extensions_b": case.ext_b.map(|b| EXTS[b as usize % EXTS.len()]), "history": history});
    if let Some((sig, msg)) = violation {
        res.signature = Some(format!("inc-c16:{}", sig));
        res.replay = json!({"engine": "INC-c16", "case": serde_json::to_value(case).unwrap(), "message": msg, "history": history});
        res.violation = Some(msg);
    }
    res
}

pub fn replay_c16(v: &Value) -> Result<CaseResult, String> {
    let c: C16Case = serde_json::from_value(v["case"].clone()).map_err(|e| format!("bad C16 case: {}", e))?;
    Ok(eval_c16(&c))
}
