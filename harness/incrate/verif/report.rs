//! Evidence / replay / known-findings bookkeeping shared by every check.

use serde_json::{json, Map, Value};
use std::collections::{BTreeMap, BTreeSet};
use std::path::{Path, PathBuf};
use std::time::Instant;

pub fn verif_dir() -> PathBuf {
    std::env::var("ZV_VERIF_DIR")
        .map(PathBuf::from)
        .unwrap_or_else(|_| PathBuf::from("/verif"))
}

#[derive(Debug, Clone, Copy, PartialEq, Eq)]
pub enum Tier {
    Quick,
    Thorough,
}

impl Tier {
    pub fn name(&self) -> &'static str {
        match self {
            Tier::Quick => "quick",
            Tier::Thorough => "thorough",
        }
    }
    pub fn pick<T>(&self, quick: T, thorough: T) -> T {
        match self {
            Tier::Quick => quick,
            Tier::Thorough => thorough,
        }
    }
}

#[derive(Debug, Clone)]
pub struct Ctx {
    pub property: String,
    pub tier: Tier,
    pub seed: u64,
    pub replay: Option<PathBuf>,
    pub threads: usize,
}

pub fn fnv(s: &str) -> u64 {
    let mut h: u64 = 0xcbf29ce484222325;
    for b in s.as_bytes() {
        h ^= *b as u64;
        h = h.wrapping_mul(0x100000001b3);
    }
    h
}

/// What one engine (SIM / INC / BB / FUZZ) covered during this run.
#[derive(Debug, Clone, Default)]
pub struct Part {
    pub engine: String,
    pub rule: String,
    pub evaluations: u64,
    pub nontrivial: BTreeSet<u64>,
    pub classes: BTreeMap<String, u64>,
    pub inconclusive: u64,
    pub inconclusive_reasons: BTreeMap<String, u64>,
    pub samples: Vec<Value>,
    pub exhaustive: Option<bool>,
    pub extra: Map<String, Value>,
}

impl Part {
    pub fn new(engine: &str, rule: &str) -> Self {
        Part {
            engine: engine.to_string(),
            rule: rule.to_string(),
            ..Default::default()
        }
    }
    pub fn merge(&mut self, other: Part) {
        self.evaluations += other.evaluations;
        self.nontrivial.extend(other.nontrivial);
        for (k, v) in other.classes {
            *self.classes.entry(k).or_default() += v;
        }
        self.inconclusive += other.inconclusive;
        for (k, v) in other.inconclusive_reasons {
            *self.inconclusive_reasons.entry(k).or_default() += v;
        }
        for s in other.samples {
            if self.samples.len() < 5 {
                self.samples.push(s);
            }
        }
        for (k, v) in other.extra {
            self.extra.insert(k, v);
        }
    }
    pub fn class(&mut self, c: &str) {
        *self.classes.entry(c.to_string()).or_default() += 1;
    }
    pub fn inconclusive(&mut self, reason: &str) {
        self.inconclusive += 1;
        *self
            .inconclusive_reasons
            .entry(reason.to_string())
            .or_default() += 1;
    }
}

#[derive(Debug, Clone)]
pub struct Failure {
    pub message: String,
    /// Stable name of the failing input / call site / history (matched against known findings).
    pub signature: String,
    pub replay: Value,
}

#[derive(Debug, Clone)]
pub struct KnownFinding {
    pub status: String,
    pub property: String,
    pub signature: String,
    pub what: String,
    pub replay: Option<String>,
}

pub fn load_known_findings() -> Vec<KnownFinding> {
    let p = verif_dir().join("known_findings.jsonl");
    let mut out = Vec::new();
    if let Ok(s) = std::fs::read_to_string(p) {
        for line in s.lines() {
            let line = line.trim();
            if line.is_empty() {
                continue;
            }
            if let Ok(v) = serde_json::from_str::<Value>(line) {
                out.push(KnownFinding {
                    status: v["status"].as_str().unwrap_or("").to_string(),
                    property: v["property"].as_str().unwrap_or("").to_string(),
                    signature: v["signature"].as_str().unwrap_or("").to_string(),
                    what: v["what"].as_str().unwrap_or("").to_string(),
                    replay: v["replay"].as_str().map(|s| s.to_string()),
                });
            }
        }
    }
    out
}

pub struct Report {
    pub ctx: Ctx,
    pub level: String,
    pub parts: Vec<Part>,
    pub failures: Vec<Failure>,
    pub known_hits: Vec<(String, String)>,
    pub assumptions: Vec<String>,
    pub infra_errors: Vec<String>,
    pub start: Instant,
    pub known: Vec<KnownFinding>,
}

impl Report {
    pub fn new(ctx: &Ctx, level: &str) -> Self {
        Report {
            ctx: ctx.clone(),
            level: level.to_string(),
            parts: Vec::new(),
            failures: Vec::new(),
            known_hits: Vec::new(),
            assumptions: Vec::new(),
            infra_errors: Vec::new(),
            start: Instant::now(),
            known: load_known_findings(),
        }
    }

    pub fn assume(&mut self, s: &str) {
        self.assumptions.push(s.to_string());
    }

    /// Open known findings of this property (signatures to exclude by construction).
    pub fn open_signatures(&self) -> Vec<String> {
        self.known
            .iter()
            .filter(|k| k.status == "open" && k.property == self.ctx.property)
            .map(|k| k.signature.clone())
            .collect()
    }

    pub fn is_known(&self, signature: &str) -> Option<&KnownFinding> {
        self.known.iter().find(|k| {
            k.status == "open" && k.property == self.ctx.property && k.signature == signature
        })
    }

    /// Register a failure: a listed open finding is reported as KNOWN-FINDING, anything else
    /// as a violation.
    pub fn fail(&mut self, f: Failure) {
        if let Some(k) = self.is_known(&f.signature) {
            let line = (k.signature.clone(), k.what.clone());
            if !self.known_hits.contains(&line) {
                self.known_hits.push(line);
            }
        } else {
            self.failures.push(f);
        }
    }

    pub fn add(&mut self, part: Part) {
        self.parts.push(part);
    }

    pub fn finish(self) -> i32 {
        let id = &self.ctx.property;
        let vdir = verif_dir();
        let wall = self.start.elapsed().as_secs_f64();
        let evaluations: u64 = self.parts.iter().map(|p| p.evaluations).sum();
        let distinct: u64 = self.parts.iter().map(|p| p.nontrivial.len() as u64).sum();
        let inconclusive: u64 = self.parts.iter().map(|p| p.inconclusive).sum();
        let mut samples: Vec<Value> = Vec::new();
        for p in &self.parts {
            for s in p.samples.iter().take(3) {
                samples.push(json!({"engine": p.engine, "case": s}));
            }
        }
        let rule = self
            .parts
            .iter()
            .map(|p| format!("[{}] {}", p.engine, p.rule))
            .collect::<Vec<_>>()
            .join(" || ");
        let engines: Vec<Value> = self
            .parts
            .iter()
            .map(|p| {
                let mut m = Map::new();
                m.insert("engine".into(), json!(p.engine));
                m.insert("evaluations".into(), json!(p.evaluations));
                m.insert("distinct_nontrivial".into(), json!(p.nontrivial.len()));
                m.insert("inconclusive".into(), json!(p.inconclusive));
                m.insert("inconclusive_reasons".into(), json!(p.inconclusive_reasons));
                m.insert("generator_classes".into(), json!(p.classes));
                if let Some(e) = p.exhaustive {
                    m.insert("exhaustive".into(), json!(e));
                }
                for (k, v) in &p.extra {
                    m.insert(k.clone(), v.clone());
                }
                Value::Object(m)
            })
            .collect();

        // replay files for violations
        let mut violation_lines = Vec::new();
        if !self.failures.is_empty() {
            let rdir = vdir.join("replays").join(id).join("found");
            let _ = std::fs::create_dir_all(&rdir);
            for (k, f) in self.failures.iter().enumerate() {
                if f.replay["engine"] == "FUZZ" {
                    // the saved raw input is the reproducible unit
                    violation_lines.push(format!(
                        "VIOLATION property={} replay={}",
                        id,
                        f.replay["input_file"].as_str().unwrap_or("?")
                    ));
                    println!("  {}", f.message);
                    continue;
                }
                let name = format!(
                    "{}-seed{}-{:08x}-{}.json",
                    self.ctx.tier.name(),
                    self.ctx.seed,
                    fnv(&f.signature) as u32,
                    k
                );
                let path = rdir.join(name);
                let body = json!({
                    "property": id,
                    "message": f.message,
                    "signature": f.signature,
                    "replay": f.replay,
                });
                let _ = std::fs::write(&path, serde_json::to_string_pretty(&body).unwrap());
                violation_lines.push(format!(
                    "VIOLATION property={} replay={}",
                    id,
                    path.display()
                ));
                println!("  {}", f.message);
            }
        }

        let exhaustive = self.parts.iter().any(|p| p.exhaustive == Some(true));
        let mut coverage = Map::new();
        coverage.insert("evaluations".into(), json!(evaluations));
        coverage.insert("distinct_nontrivial".into(), json!(distinct));
        coverage.insert("rule".into(), json!(rule));
        coverage.insert("samples".into(), json!(samples));
        coverage.insert("inconclusive".into(), json!(inconclusive));
        coverage.insert("engines".into(), json!(engines));
        if exhaustive {
            coverage.insert(
                "exhaustive_note".into(),
                json!("exhaustive only for the sub-spaces flagged per engine"),
            );
        }
        coverage.insert(
            "known_findings_reproduced".into(),
            json!(self
                .known_hits
                .iter()
                .map(|(s, w)| json!({"signature": s, "what": w}))
                .collect::<Vec<_>>()),
        );
        let ev = json!({
            "property_id": id,
            "tier": self.ctx.tier.name(),
            "seed": self.ctx.seed,
            "level": self.level,
            "coverage": Value::Object(coverage),
            "assumptions": self.assumptions,
            "wall_s": (wall * 1000.0).round() / 1000.0,
            "violations": self.failures.len(),
            "infrastructure_errors": self.infra_errors,
        });
        let edir = vdir.join("evidence");
        let _ = std::fs::create_dir_all(&edir);
        let _ = std::fs::write(
            edir.join(format!("{}.json", id)),
            serde_json::to_string_pretty(&ev).unwrap() + "\n",
        );

        for (sig, what) in &self.known_hits {
            println!("KNOWN-FINDING: property={} [{}] {}", id, sig, what);
        }
        println!(
            "{} {}: {} cases, {} distinct non-trivial, {} inconclusive, {} violation(s), {:.1}s",
            id,
            self.ctx.tier.name(),
            evaluations,
            distinct,
            inconclusive,
            self.failures.len(),
            wall
        );
        for p in &self.parts {
            println!(
                "  [{}] {} cases, {} non-trivial; classes: {}",
                p.engine,
                p.evaluations,
                p.nontrivial.len(),
                p.classes
                    .iter()
                    .map(|(k, v)| format!("{}={}", k, v))
                    .collect::<Vec<_>>()
                    .join(" ")
            );
        }
        for l in &violation_lines {
            println!("{}", l);
        }
        if !violation_lines.is_empty() {
            return 1;
        }
        if !self.infra_errors.is_empty() {
            for e in &self.infra_errors {
                eprintln!("INFRASTRUCTURE: {}", e);
            }
            return 2;
        }
        if evaluations == 0 || (inconclusive > 0 && inconclusive >= evaluations) {
            eprintln!("INCONCLUSIVE: nothing was decided");
            return 2;
        }
        0
    }
}

pub fn read_replay(path: &Path) -> Result<Value, String> {
    let s = std::fs::read_to_string(path).map_err(|e| format!("{}: {}", path.display(), e))?;
    serde_json::from_str(&s).map_err(|e| format!("{}: {}", path.display(), e))
}
