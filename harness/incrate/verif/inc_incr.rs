//! INC checks on the real incremental step (`incremental::run` called in-crate on real scratch
//! trees): C02 (skipped only if nothing changed), C03 (unchanged => skipped), C13 (X.output).

use super::bb::*;
use super::inc_fs::ext_variant;
use super::prop::*;
use super::tree::*;
use crate::config::{ir, yaml};
use crate::domain::{BuildTarget, Target, TargetId};
use crate::engine::incremental::{self, IncrementalRunResult};
use crate::engine::verif_access::BuildTerminationReport;
use proptest::prelude::*;
use serde::{Deserialize, Serialize};
use serde_json::{json, Value};
use std::cell::Cell;
use std::collections::{BTreeMap, BTreeSet};
use std::os::unix::fs::MetadataExt;
use std::path::{Path, PathBuf};

#[derive(Debug, Clone, Serialize, Deserialize)]
pub struct IncCase {
    /// 0 = consumer only; 1 = producer in the same project; 2 = producer in an imported project;
    /// 3 = chain: sub::q -> sub::p -> consumer.
    pub layout: u8,
    pub src_ext: u8,
    pub second_files: bool,
    pub own_cmd: bool,
    pub out_paths: bool,
    pub out_cmd: bool,
    pub prod_paths_ext: u8,
    pub prod_paths: bool,
    pub prod_cmd: bool,
    pub tree: TreeSpec,
    pub edits: Vec<(u8, u8)>,
    pub extra_invocations: u8,
    /// C03 mode: only edits that leave every declared resource unchanged.
    pub neutral_only: bool,
    /// The producer is also listed under `dependencies` (both reference kinds on one edge).
    #[serde(default)]
    pub also_dependency: bool,
    /// A second producer (in the root project) with the same output command text.
    #[serde(default)]
    pub second_producer: bool,
    /// The consumer also declares a command that prints more than a pipe buffer (70 000 bytes).
    #[serde(default)]
    pub big_cmd: bool,
    /// BB only: the first invocation's script is killed by a signal (never completes).
    #[serde(default)]
    pub kill_first: bool,
    /// Declared directories also hold links to regular files kept outside the project.
    #[serde(default)]
    pub links: bool,
}

pub fn inc_case(neutral_only: bool) -> impl Strategy<Value = IncCase> {
    (
        (0u8..4, 0u8..14, any::<bool>(), any::<bool>(), any::<bool>(), any::<bool>()),
        (0u8..14, any::<bool>(), any::<bool>()),
        tree_spec(10, true),
        prop::collection::vec((0u8..OPS.len() as u8, any::<u8>()), if neutral_only { 0..=4 } else { 1..=6 }),
        (0u8..3, any::<bool>(), any::<bool>(), 0u8..8, 0u8..4, any::<bool>()),
    )
        .prop_map(
            move |((layout, src_ext, second_files, own_cmd, out_paths, out_cmd), (prod_paths_ext, prod_paths, prod_cmd), tree, edits, (extra_invocations, also_dependency, second_producer, big_b, kill_b, links))| {
                // links are excluded here (the model must be exact): keep files and dirs
                let tree = TreeSpec {
                    entries: tree
                        .entries
                        .into_iter()
                        .filter(|e| matches!(e.kind, TKind::File(_) | TKind::Dir))
                        .collect(),
                };
                let (prod_paths, prod_cmd) = if layout > 0 && !prod_paths && !prod_cmd {
                    (true, false)
                } else {
                    (prod_paths, prod_cmd)
                };
                IncCase {
                    layout,
                    src_ext,
                    second_files,
                    own_cmd,
                    out_paths,
                    out_cmd,
                    prod_paths_ext,
                    prod_paths,
                    prod_cmd,
                    tree,
                    edits,
                    extra_invocations,
                    neutral_only,
                    also_dependency: also_dependency && layout > 0,
                    second_producer: second_producer && layout >= 2,
                    big_cmd: big_b == 0,
                    kill_first: kill_b == 0,
                    links,
                }
            },
        )
}

/// One declared resource in the model: files (absolute paths + normalised filter) or a command.
#[derive(Debug, Clone)]
pub enum MRes {
    Files(Vec<PathBuf>, Option<BTreeSet<String>>),
    Cmd(PathBuf, String),
}

#[derive(Debug, Clone, PartialEq, Eq)]
pub struct Snapshot {
    /// path -> (mtime ns, content)
    pub files: BTreeMap<PathBuf, (i128, Vec<u8>)>,
    /// (dir, cmd) -> stdout (None = command failed)
    pub cmds: BTreeMap<(PathBuf, String), Option<String>>,
}

pub fn snapshot_resources(res: &[MRes]) -> Snapshot {
    let mut files = BTreeMap::new();
    let mut cmds = BTreeMap::new();
    for r in res {
        match r {
            MRes::Files(paths, exts) => {
                let l = reference_listing(paths, exts);
                for p in l.must {
                    if let Ok(md) = std::fs::metadata(&p) {
                        let mt = md.mtime() as i128 * 1_000_000_000 + md.mtime_nsec() as i128;
                        files.insert(p.clone(), (mt, std::fs::read(&p).unwrap_or_default()));
                    }
                }
            }
            MRes::Cmd(dir, cmd) => {
                let out = std::process::Command::new("/bin/sh")
                    .arg("-ce")
                    .arg(cmd)
                    .current_dir(dir)
                    .stderr(std::process::Stdio::null())
                    .output();
                let v = match out {
                    Ok(o) if o.status.success() => Some(String::from_utf8_lossy(&o.stdout).to_string()),
                    _ => None,
                };
                cmds.insert((dir.clone(), cmd.clone()), v);
            }
        }
    }
    Snapshot { files, cmds }
}

/// C02: a skip is allowed only if sets are equal, each file has the recorded mtime or content,
/// each command prints the recorded text.
pub fn skip_allowed(a: &Snapshot, b: &Snapshot) -> Result<(), String> {
    if a.files.keys().collect::<Vec<_>>() != b.files.keys().collect::<Vec<_>>() {
        let added: Vec<_> = b.files.keys().filter(|k| !a.files.contains_key(*k)).collect();
        let removed: Vec<_> = a.files.keys().filter(|k| !b.files.contains_key(*k)).collect();
        return Err(format!("file set changed (added {:?}, removed {:?})", added, removed));
    }
    for (p, (mt, c)) in &a.files {
        let (mt2, c2) = &b.files[p];
        if mt != mt2 && c != c2 {
            return Err(format!("{} was rewritten (modification time and content both differ)", p.display()));
        }
    }
    for (k, v) in &a.cmds {
        if v.is_none() || b.cmds.get(k) != Some(v) {
            return Err(format!("command {:?} in {} printed {:?}, now {:?}", k.1, k.0.display(), v, b.cmds.get(k)));
        }
    }
    Ok(())
}

/// C03 premise: nothing changed (same sets, same contents, same command outputs, all succeed).
pub fn unchanged(a: &Snapshot, b: &Snapshot) -> bool {
    a.files.len() == b.files.len()
        && a.files.iter().all(|(p, (_, c))| b.files.get(p).is_some_and(|(_, c2)| c == c2))
        && a.cmds.iter().all(|(k, v)| v.is_some() && b.cmds.get(k) == Some(v))
        && a.cmds.len() == b.cmds.len()
}

pub struct World {
    pub sb: Sandbox,
    pub root: PathBuf,
    pub prod_dir: Option<PathBuf>,
    /// Model of the consumer's effective input and output resources.
    pub input: Vec<MRes>,
    pub output: Vec<MRes>,
    /// Expected structure of the resolved consumer (C13).
    pub expect_dep: Vec<String>,
    pub consumer: BuildTarget,
    pub producer_inherited: Vec<MRes>,
}

fn declare(case: &IncCase, sb: &Sandbox) -> (Value, Option<Value>) {
    // consumer
    let mut input: Vec<Value> = vec![];
    let e = ext_variant(case.src_ext);
    input.push(match &e {
        None => json!({"paths": ["src"]}),
        Some(e) => json!({"paths": ["src"], "extensions": e}),
    });
    if case.second_files {
        input.push(json!({"paths": ["data/one.txt", "lib", ".env", "./.settings", "../shared/cfg.txt"]}));
    }
    if case.own_cmd {
        input.push(json!({"cmd_stdout": "cat v.txt"}));
    }
    if case.big_cmd {
        input.push(json!({"cmd_stdout": "cat lib/big.bin"}));
    }
    let pref = match case.layout {
        0 => None,
        1 => Some("p".to_string()),
        _ => Some("sub::p".to_string()),
    };
    if case.second_producer {
        // listed before the imported producer: same command text, other directory
        input.push(json!("p2.output"));
    }
    if let Some(p) = &pref {
        input.push(json!(format!("{}.output", p)));
    }
    let consumer_deps: Vec<String> = match (&pref, case.also_dependency) {
        (Some(p), true) => vec![p.clone()],
        _ => vec![],
    };
    let mut output: Vec<Value> = vec![];
    if case.out_paths {
        output.push(json!({"paths": ["out"]}));
    }
    if case.out_cmd {
        output.push(json!({"cmd_stdout": "cat o.txt"}));
    }
    let consumer = json!({"dependencies": consumer_deps, "build": build_script("c", "if [ -e \"$ZV_ROOT/killme\" ]; then rm -f \"$ZV_ROOT/killme\"; kill -9 $$; fi"), "input": input, "output": output});
    let p2 = json!({"build": build_script("p2", ""), "output": [{"cmd_stdout": "cat v.txt"}, {"paths": ["gen2"]}]});
    // producer
    let mut pout: Vec<Value> = vec![];
    if case.prod_paths {
        let pe = ext_variant(case.prod_paths_ext);
        pout.push(match &pe {
            None => json!({"paths": ["gen", "src"]}),
            Some(pe) => json!({"paths": ["gen", "src"], "extensions": pe}),
        });
    }
    if case.prod_cmd {
        // same command text as the consumer's own command, other directory
        pout.push(json!({"cmd_stdout": "cat v.txt"}));
    }
    let producer = if case.layout == 3 {
        json!({"build": build_script("p", ""), "input": ["q.output"], "output": pout})
    } else {
        json!({"build": build_script("p", ""), "output": pout})
    };
    let _ = sb;
    match case.layout {
        0 => (json!({"targets": {"c": consumer}}), None),
        1 => (json!({"targets": {"c": consumer, "p": producer}}), None),
        2 => (
            if case.second_producer {
                json!({"imports": {"sub": "sub"}, "targets": {"c": consumer, "p2": p2}})
            } else {
                json!({"imports": {"sub": "sub"}, "targets": {"c": consumer}})
            },
            Some(json!({"name": "sub", "targets": {"p": producer}})),
        ),
        _ => (
            if case.second_producer {
                json!({"imports": {"sub": "sub"}, "targets": {"c": consumer, "p2": p2}})
            } else {
                json!({"imports": {"sub": "sub"}, "targets": {"c": consumer}})
            },
            Some(json!({"name": "sub", "targets": {"p": producer, "q": {"build": build_script("q", ""), "output": [{"paths": ["qgen"]}]}}})),
        ),
    }
}

pub fn build_world(case: &IncCase, tag: &str) -> Result<World, String> {
    let sb = Sandbox::new(tag);
    let root = sb.path("proj");
    case.tree.materialise(&root.join("src"), &sb.path("outside"));
    let _ = std::fs::create_dir_all(root.join("src"));
    sb.write("proj/src/main.rs", b"fn main() {}\n");
    sb.write("proj/src/notes.txt", b"notes\n");
    sb.write("proj/src/.zinoma/cache.rs", b"inside a work dir\n");
    sb.write("proj/data/one.txt", b"one\n");
    sb.write("proj/lib/l.rs", b"lib\n");
    // dotted and parent-relative declarations, each with an undeclared look-alike
    sb.write("proj/.env", b"KEY=1\n");
    sb.write("proj/env", b"look-alike of .env\n");
    sb.write("proj/.settings/s.ini", b"[s]\n");
    sb.write("proj/settings/s.ini", b"look-alike of .settings\n");
    sb.write("shared/cfg.txt", b"shared cfg\n");
    sb.write("proj/shared/cfg.txt", b"look-alike of ../shared\n");
    sb.write("proj/lib/big.bin", &file_content(7, "big"));
    sb.write("proj/v.txt", b"version-1\n");
    sb.write("proj/o.txt", b"output-1\n");
    sb.write("proj/out/result.bin", b"result\n");
    sb.write("proj/gen/a.rs", b"look-alike in the consumer's project\n");
    if case.links {
        // e.g. a header shared between projects and linked into the source directory
        sb.write("outside/shared.rs", b"shared source 1\n");
        sb.write("outside/shared2.rs", b"shared source, second version\n");
        sb.write("outside/blob.bin", b"blob 1\n");
        let _ = std::os::unix::fs::symlink("../../outside/shared.rs", sb.path("proj/src/linked.rs"));
        let _ = std::os::unix::fs::symlink(sb.path("outside/blob.bin"), sb.path("proj/lib/linked.bin"));
    }
    let prod_rel = match case.layout {
        0 => None,
        1 => Some("proj"),
        _ => Some("proj/sub"),
    };
    if let Some(pr) = prod_rel {
        sb.write(&format!("{}/gen/a.rs", pr), b"generated a\n");
        sb.write(&format!("{}/gen/b.txt", pr), b"generated b\n");
        sb.write(&format!("{}/gen/deep/c.rs", pr), b"generated c\n");
        if pr != "proj" {
            sb.write(&format!("{}/src/main.rs", pr), b"// same relative path, other project\n");
            sb.write(&format!("{}/v.txt", pr), b"producer-version-1\n");
        }
    }
    let (root_doc, sub_doc) = declare(case, &sb);
    write_project(&root, &root_doc);
    if let Some(d) = sub_doc {
        write_project(&root.join("sub"), &d);
    }
    let canon = std::fs::canonicalize(&root).map_err(|e| e.to_string())?;
    let prod_dir = prod_rel.map(|p| std::fs::canonicalize(sb.path(p)).unwrap());
    // model
    let mut input = vec![MRes::Files(
        vec![canon.join("src")],
        normalise_extensions(&ext_variant(case.src_ext)),
    )];
    if case.second_files {
        input.push(MRes::Files(
            vec![
                canon.join("data/one.txt"),
                canon.join("lib"),
                canon.join(".env"),
                // declared paths are joined to the project directory as written
                canon.join("./.settings"),
                canon.join("../shared/cfg.txt"),
            ],
            None,
        ));
    }
    if case.own_cmd {
        input.push(MRes::Cmd(canon.clone(), "cat v.txt".into()));
    }
    if case.big_cmd {
        input.push(MRes::Cmd(canon.clone(), "cat lib/big.bin".into()));
    }
    let mut inherited = vec![];
    if case.second_producer {
        sb.write("proj/gen2/g.txt", b"second producer output\n");
        inherited.push(MRes::Files(vec![canon.join("gen2")], None));
        inherited.push(MRes::Cmd(canon.clone(), "cat v.txt".into()));
    }
    if let Some(pd) = &prod_dir {
        if case.prod_paths {
            inherited.push(MRes::Files(
                vec![pd.join("gen"), pd.join("src")],
                normalise_extensions(&ext_variant(case.prod_paths_ext)),
            ));
        }
        if case.prod_cmd {
            inherited.push(MRes::Cmd(pd.clone(), "cat v.txt".into()));
        }
    }
    input.extend(inherited.iter().cloned());
    let mut output = vec![];
    if case.out_paths {
        output.push(MRes::Files(vec![canon.join("out")], None));
    }
    if case.out_cmd {
        output.push(MRes::Cmd(canon.clone(), "cat o.txt".into()));
    }
    // real loader + resolver
    let cfg = yaml::Config::load(&root).map_err(|e| format!("load: {:#}", e))?;
    let config: ir::Config = cfg.into();
    let id = TargetId {
        project_name: None,
        target_name: "c".into(),
    };
    let mut map = config
        .try_into_domain_targets(std::slice::from_ref(&id))
        .map_err(|e| format!("resolve: {:#}", e))?;
    let consumer = match map.remove(&id) {
        Some(Target::Build(b)) => b,
        _ => return Err("consumer missing".into()),
    };
    let expect_dep = match case.layout {
        0 => vec![],
        1 => vec!["p".to_string()],
        _ => vec!["sub::p".to_string()],
    };
    Ok(World {
        sb,
        root: canon,
        prod_dir,
        input,
        output,
        expect_dep,
        consumer,
        producer_inherited: inherited,
    })
}

/// One call of the real incremental step with a harness future standing for the script.
pub fn call_incremental(b: &BuildTarget) -> Result<(IncrementalRunResult, bool), String> {
    // The step takes milliseconds; it runs on its own thread under a 10 s watchdog so that a
    // step that never returns (e.g. a command whose output is never drained) is reported
    // instead of blocking the worker for ever.
    let (tx, rx) = std::sync::mpsc::channel();
    let metadata = b.metadata.clone();
    let input = b.input.clone();
    let output = b.output.clone();
    std::thread::spawn(move || {
        let ran = std::sync::atomic::AtomicBool::new(false);
        let fut = async {
            ran.store(true, std::sync::atomic::Ordering::SeqCst);
            Ok(BuildTerminationReport::Completed)
        };
        let r = async_std::task::block_on(incremental::run(&metadata, &input, Some(&output), fut))
            .map_err(|e| format!("{:#}", e));
        let _ = tx.send(r.map(|r| (r, ran.load(std::sync::atomic::Ordering::SeqCst))));
    });
    match rx.recv_timeout(std::time::Duration::from_secs(10)) {
        Ok(r) => r,
        Err(_) => Err("HANG: the incremental step did not return within 10 s".into()),
    }
}

fn bump_mtime(p: &Path, counter: &mut i64) {
    *counter += 1;
    set_mtime(p, 1_900_000_000 + *counter, (*counter * 7919) % 1_000_000_000);
}

pub const OPS: [&str; 26] = [
    "overwrite-same-length",
    "overwrite-restore-mtime",
    "append",
    "truncate",
    "touch",
    "delete",
    "rename-within",
    "rename-out",
    "create-matching",
    "create-non-matching",
    "edit-own-cmd-source",
    "edit-producer-cmd-source",
    "edit-look-alike",
    "edit-under-workdir",
    "change-beyond-1k",
    "change-beyond-64k",
    "edit-output",
    "edit-producer-output",
    "no-op",
    "touch-non-matching",
    "overwrite-older-mtime",
    "rewrite-link-referent",
    "repoint-link",
    "touch-link-referent",
    "edit-parent-relative-input",
    "edit-dotted-look-alike",
];
/// Operations that never change a declared resource.
pub const NEUTRAL_OPS: [u8; 8] = [4, 9, 12, 13, 18, 19, 23, 25];

/// Applies one edit against the current tree; returns a label (None = not applicable here).
pub fn apply_edit(w: &World, case: &IncCase, op: u8, sel: u8, counter: &mut i64) -> Option<String> {
    let snap_in = snapshot_resources(&w.input);
    let own_files: Vec<PathBuf> = snap_in
        .files
        .keys()
        .filter(|p| p.starts_with(&w.root) && !w.prod_dir.as_ref().is_some_and(|pd| pd != &w.root && p.starts_with(pd)))
        .cloned()
        .collect();
    let pick = |v: &Vec<PathBuf>| -> Option<PathBuf> {
        if v.is_empty() {
            None
        } else {
            Some(v[(sel as usize * v.len()) >> 8].clone())
        }
    };
    let name = OPS[op as usize % OPS.len()];
    match name {
        "overwrite-same-length" => {
            let p = pick(&own_files)?;
            let mut c = std::fs::read(&p).ok()?;
            if c.is_empty() {
                return None;
            }
            let k = c.len() / 2;
            c[k] = c[k].wrapping_add(1);
            std::fs::write(&p, c).ok()?;
            bump_mtime(&p, counter);
        }
        "overwrite-restore-mtime" => {
            let p = pick(&own_files)?;
            let md = std::fs::metadata(&p).ok()?;
            let mut c = std::fs::read(&p).ok()?;
            if c.is_empty() {
                return None;
            }
            c[0] = c[0].wrapping_add(1);
            std::fs::write(&p, c).ok()?;
            set_mtime(&p, md.mtime(), md.mtime_nsec());
        }
        "overwrite-older-mtime" => {
            // e.g. a file restored from a backup: new content, modification time in the past
            let p = pick(&own_files)?;
            let md = std::fs::metadata(&p).ok()?;
            let mut c = std::fs::read(&p).ok()?;
            if c.is_empty() {
                c.push(b'x');
            } else {
                c[0] = c[0].wrapping_add(1);
            }
            std::fs::write(&p, c).ok()?;
            set_mtime(&p, md.mtime() - 1000 - *counter, md.mtime_nsec());
            *counter += 1;
        }
        "append" => {
            let p = pick(&own_files)?;
            let mut c = std::fs::read(&p).ok()?;
            c.extend_from_slice(b"+appended");
            std::fs::write(&p, c).ok()?;
            bump_mtime(&p, counter);
        }
        "truncate" => {
            let p = pick(&own_files)?;
            let c = std::fs::read(&p).ok()?;
            if c.is_empty() {
                return None;
            }
            std::fs::write(&p, &c[..c.len() - 1]).ok()?;
            bump_mtime(&p, counter);
        }
        "touch" => {
            let p = pick(&own_files)?;
            bump_mtime(&p, counter);
        }
        "delete" => {
            let p = pick(&own_files)?;
            std::fs::remove_file(&p).ok()?;
        }
        "rename-within" => {
            let p = pick(&own_files)?;
            let fname = p.file_name()?.to_str()?.to_string();
            let np = p.with_file_name(format!("renamed{}-{}", sel, fname));
            std::fs::rename(&p, &np).ok()?;
        }
        "rename-out" => {
            let p = pick(&own_files)?;
            let np = w.root.join(format!("moved-away-{}", sel));
            std::fs::rename(&p, &np).ok()?;
        }
        "create-matching" => {
            // a name that matches the src filter (if any)
            let ext = normalise_extensions(&ext_variant(case.src_ext))
                .and_then(|s| s.into_iter().next())
                .unwrap_or_else(|| ".dat".to_string());
            let p = w.root.join("src").join(format!("fresh{}{}", sel, ext));
            if p.exists() {
                return None;
            }
            std::fs::write(&p, b"fresh file\n").ok()?;
        }
        "create-non-matching" => {
            if normalise_extensions(&ext_variant(case.src_ext)).is_none() {
                // without a filter every file under src is denoted: create it elsewhere
                let p = w.root.join(format!("elsewhere{}.nomatch", sel));
                std::fs::write(&p, b"x").ok()?;
            } else {
                let p = w.root.join("src").join(format!("other{}.nomatch_zz", sel));
                std::fs::write(&p, b"x").ok()?;
            }
        }
        "edit-own-cmd-source" => {
            let p = w.root.join("v.txt");
            // sometimes the new text is exactly what the same command prints in the producer's
            // directory (two declared commands must not be confused)
            let other = w
                .prod_dir
                .as_ref()
                .filter(|pd| *pd != &w.root)
                .and_then(|pd| std::fs::read_to_string(pd.join("v.txt")).ok());
            match other {
                Some(text) if sel % 2 == 0 => std::fs::write(&p, text).ok()?,
                _ => std::fs::write(&p, format!("version-{}\n", 2 + sel as u32 % 3)).ok()?,
            }
        }
        "edit-producer-cmd-source" => {
            let pd = w.prod_dir.as_ref()?;
            if pd == &w.root {
                return None;
            }
            // may become equal to the consumer's own text (collision scenario)
            let text = if sel % 2 == 0 {
                std::fs::read_to_string(w.root.join("v.txt")).ok()?
            } else {
                format!("producer-version-{}\n", 2 + sel as u32 % 3)
            };
            std::fs::write(pd.join("v.txt"), text).ok()?;
        }
        "edit-look-alike" => {
            // same relative path as a producer output, but in the consumer's own project, or a
            // file no resource declares
            let p = if w.prod_dir.as_ref().is_some_and(|pd| pd != &w.root) {
                w.root.join("gen/a.rs")
            } else {
                w.root.join("undeclared.txt")
            };
            std::fs::write(&p, format!("look-alike {}\n", sel)).ok()?;
        }
        "edit-under-workdir" => {
            let p = w.root.join("src/.zinoma/cache.rs");
            std::fs::write(&p, format!("cache {}\n", sel)).ok()?;
        }
        "change-beyond-1k" | "change-beyond-64k" => {
            let min = if name == "change-beyond-1k" { 1100 } else { 66_000 };
            let big: Vec<PathBuf> = snap_in
                .files
                .iter()
                .filter(|(_, (_, c))| c.len() > min)
                .map(|(p, _)| p.clone())
                .collect();
            let p = pick(&big)?;
            let md = std::fs::metadata(&p).ok()?;
            let mut c = std::fs::read(&p).ok()?;
            let k = c.len() - 1 - (sel as usize % 16);
            c[k] = c[k].wrapping_add(1);
            std::fs::write(&p, c).ok()?;
            // keep the modification time different (so only the content hash can tell)
            let _ = md;
            bump_mtime(&p, counter);
        }
        "edit-output" => {
            if case.out_paths && sel % 2 == 0 {
                let p = w.root.join("out/result.bin");
                std::fs::write(&p, format!("result {}\n", sel)).ok()?;
                bump_mtime(&p, counter);
            } else if case.out_cmd {
                std::fs::write(w.root.join("o.txt"), format!("output-{}\n", sel)).ok()?;
            } else {
                return None;
            }
        }
        "edit-producer-output" => {
            let pd = w.prod_dir.as_ref()?;
            let snap = snapshot_resources(&w.producer_inherited);
            let files: Vec<PathBuf> = snap.files.keys().cloned().collect();
            match sel % 3 {
                0 => {
                    let p = pick(&files)?;
                    std::fs::write(&p, format!("regenerated {}\n", sel)).ok()?;
                    bump_mtime(&p, counter);
                }
                1 => {
                    let p = pd.join("gen").join(format!("new{}.rs", sel));
                    std::fs::write(&p, b"new generated file\n").ok()?;
                }
                _ => {
                    let p = pick(&files)?;
                    std::fs::remove_file(&p).ok()?;
                }
            }
        }
        "rewrite-link-referent" | "touch-link-referent" => {
            // the declared entry is a link; the file it names changes (or is only touched)
            let link = if sel % 2 == 0 { w.root.join("src/linked.rs") } else { w.root.join("lib/linked.bin") };
            if !std::fs::symlink_metadata(&link).ok()?.file_type().is_symlink() {
                return None;
            }
            let referent = std::fs::canonicalize(&link).ok()?;
            if name == "rewrite-link-referent" {
                std::fs::write(&referent, format!("rewritten behind the link {} {}\n", sel, counter)).ok()?;
            }
            bump_mtime(&referent, counter);
        }
        "repoint-link" => {
            let link = w.root.join("src/linked.rs");
            if !std::fs::symlink_metadata(&link).ok()?.file_type().is_symlink() {
                return None;
            }
            let cur = std::fs::read_link(&link).ok()?;
            let next = if cur.ends_with("shared.rs") { "../../outside/shared2.rs" } else { "../../outside/shared.rs" };
            std::fs::remove_file(&link).ok()?;
            std::os::unix::fs::symlink(next, &link).ok()?;
            // the newly named file has another content and another modification time
            bump_mtime(&std::fs::canonicalize(&link).ok()?, counter);
        }
        "edit-parent-relative-input" => {
            if !case.second_files {
                return None;
            }
            let p = w.root.parent()?.join("shared/cfg.txt");
            std::fs::write(&p, format!("shared cfg {} {}\n", sel, counter)).ok()?;
            bump_mtime(&p, counter);
        }
        "edit-dotted-look-alike" => {
            // `env`, `settings/` and `<project>/shared/` are not `.env`, `.settings/`, `../shared/`
            let p = match sel % 3 {
                0 => w.root.join("env"),
                1 => w.root.join("settings/s.ini"),
                _ => w.root.join("shared/cfg.txt"),
            };
            std::fs::write(&p, format!("look-alike {}\n", sel)).ok()?;
        }
        "touch-non-matching" => {
            let p = w.root.join("data/unlisted.txt");
            std::fs::write(&p, format!("{}", sel)).ok()?;
        }
        _ => {}
    }
    Some(name.to_string())
}

pub struct IncOutcome {
    pub res: CaseResult,
}

/// Shared driver; `which` selects the oracle: "c02", "c03" or "c13".
pub fn eval_inc(case: &IncCase, which: &str) -> CaseResult {
    catch_case(
        &format!("inc-{}:panic", which),
        |msg| json!({"engine": format!("INC-{}", which), "case": serde_json::to_value(case).unwrap(), "message": msg}),
        || eval_inc_inner(case, which),
    )
}

fn eval_inc_inner(case: &IncCase, which: &str) -> CaseResult {
    let mut res = CaseResult::default();
    let w = match build_world(case, which) {
        Ok(w) => w,
        Err(e) => {
            res.inconclusive = Some(e);
            return res;
        }
    };
    let layout_class = match case.layout {
        0 => "single-project",
        1 => "producer-same-project",
        2 => "producer-imported-project",
        _ => "producer-chain-imported",
    };
    let mut classes: Vec<String> = vec![layout_class.to_string()];
    let collide_cmd = case.own_cmd && case.prod_cmd && case.layout >= 2;
    if collide_cmd {
        classes.push("same-command-text-two-dirs".into());
    }
    if case.layout >= 2 && case.prod_paths {
        classes.push("same-relative-path-two-projects".into());
    }
    if case.links {
        classes.push("links-to-outside-files".into());
    }
    let n_res = 1 + case.second_files as usize + case.own_cmd as usize + (case.layout > 0) as usize;
    let replay = |msg: &str, extra: Value| json!({"engine": format!("INC-{}", which), "case": serde_json::to_value(case).unwrap(), "message": msg, "detail": extra});
    let fail = |mut res: CaseResult, sig: &str, msg: String, extra: Value| {
        res.signature = Some(format!("inc-{}:{}", which, sig));
        res.replay = replay(&msg, extra);
        res.violation = Some(msg);
        res
    };

    // --- C13 structural expectation -------------------------------------------------------
    let b = &w.consumer;
    if which == "c13" {
        let deps: Vec<String> = b.metadata.dependencies.iter().map(|d| d.to_string()).collect();
        for d in &w.expect_dep {
            if !deps.contains(d) {
                return fail(res, "not-a-dependency", format!("consumer lists {}.output but its dependencies are {:?}", d, deps), json!({}));
            }
        }
        // effective input = own resources followed by the producer's outputs
        let want_files: Vec<(Vec<PathBuf>, Option<BTreeSet<String>>)> = w
            .input
            .iter()
            .filter_map(|r| match r {
                MRes::Files(p, e) => Some((p.clone(), e.clone())),
                _ => None,
            })
            .collect();
        let got_files: Vec<(Vec<PathBuf>, Option<BTreeSet<String>>)> = b
            .input
            .files
            .iter()
            .map(|f| (f.paths.iter().map(|p| PathBuf::from(p.as_os_str())).collect(), f.extensions.clone()))
            .collect();
        if want_files != got_files {
            return fail(
                res,
                "inherited-files",
                format!("consumer's effective files inputs are {:?}, expected own resources followed by the producer's outputs {:?}", got_files, want_files),
                json!({}),
            );
        }
        let want_cmds: Vec<(PathBuf, String)> = w
            .input
            .iter()
            .filter_map(|r| match r {
                MRes::Cmd(d, c) => Some((d.clone(), c.clone())),
                _ => None,
            })
            .collect();
        let got_cmds: Vec<(PathBuf, String)> = b
            .input
            .cmds
            .iter()
            .map(|c| (PathBuf::from(c.dir.as_os_str()), c.cmd.clone()))
            .collect();
        if want_cmds != got_cmds {
            return fail(
                res,
                "inherited-cmds",
                format!("consumer's effective command inputs are {:?}, expected {:?} (commands run in the declaring project's directory)", got_cmds, want_cmds),
                json!({}),
            );
        }
    }

    // --- history ----------------------------------------------------------------------------
    let (r1, ran1) = match call_incremental(b) {
        Ok(x) => x,
        Err(e) if e.starts_with("HANG") => {
            return fail(res, "hang", format!("first run: {} (declared commands: big output = {})", e, case.big_cmd), json!({}));
        }
        Err(e) => {
            res.inconclusive = Some(format!("first run failed: {}", e));
            return res;
        }
    };
    if r1 == IncrementalRunResult::Skipped || !ran1 {
        return fail(res, "skipped-without-record", "the very first run was skipped although no record exists".into(), json!({}));
    }
    let mut all = w.input.clone();
    all.extend(w.output.iter().cloned());
    let s1 = snapshot_resources(&all);
    let storable = s1.cmds.values().all(|v| v.is_some());
    let mut counter = 0i64;
    let mut labels: Vec<String> = vec![];
    for (op, sel) in &case.edits {
        let op = if case.neutral_only {
            NEUTRAL_OPS[*op as usize % NEUTRAL_OPS.len()]
        } else {
            *op
        };
        if let Some(l) = apply_edit(&w, case, op, *sel, &mut counter) {
            labels.push(l);
        }
    }
    let s2 = snapshot_resources(&all);
    let (r2, ran2) = match call_incremental(b) {
        Ok(x) => x,
        Err(e) if e.starts_with("HANG") => {
            return fail(res, "hang", format!("second run: {}", e), json!({}));
        }
        Err(e) => {
            res.inconclusive = Some(format!("second run failed: {}", e));
            return res;
        }
    };
    let skipped = r2 == IncrementalRunResult::Skipped;
    let allowed = skip_allowed(&s1, &s2);
    let same = unchanged(&s1, &s2);
    let mut dims: BTreeSet<String> = labels.iter().cloned().collect();
    if !same {
        dims.insert("model-changed".into());
    }
    for l in &labels {
        classes.push(format!("op-{}", l));
    }
    classes.sort();
    classes.dedup();
    res.sample = json!({"layout": layout_class, "declared": {"src_ext": ext_variant(case.src_ext), "second_files": case.second_files, "own_cmd": case.own_cmd,
        "out_paths": case.out_paths, "out_cmd": case.out_cmd, "producer_paths": case.prod_paths, "producer_ext": ext_variant(case.prod_paths_ext), "producer_cmd": case.prod_cmd},
        "edits": labels, "second_run": if skipped {"skipped"} else {"ran"}, "model_unchanged": same});
    let detail = json!({"edits": labels, "second_run": if skipped {"skipped"} else {"ran"}, "skip_allowed": allowed.clone().err(), "model_unchanged": same});
    match which {
        "c02" => {
            res.nontrivial = !same;
            res.fingerprint = format!("{}|{:?}|{}", layout_class, dims, n_res);
            if skipped && ran2 {
                return fail(res, "skipped-but-ran", "reported skipped but the script future was polled".into(), detail);
            }
            if skipped {
                if let Err(why) = &allowed {
                    let sig = if collide_cmd && why.starts_with("command") { "cmd-key-collision" } else { "wrong-skip" };
                    return fail(res, sig, format!("build skipped although {} (edits: {:?})", why, labels), detail);
                }
            }
        }
        "c03" | "c13" => {
            res.nontrivial = if which == "c03" {
                n_res >= 2 || case.layout >= 2 || collide_cmd || case.extra_invocations >= 1
            } else {
                case.layout >= 2 && (collide_cmd || case.prod_paths)
            };
            res.fingerprint = format!("{}|{:?}|{}|{}|inv{}", layout_class, dims, n_res, collide_cmd, case.extra_invocations);
            if which == "c13" && skipped {
                if let Err(why) = &allowed {
                    let sig = if collide_cmd && why.starts_with("command") { "cmd-key-collision" } else { "wrong-skip" };
                    return fail(res, sig, format!("consumer skipped although {} (edits: {:?})", why, labels), detail);
                }
            }
            if same && storable && !skipped {
                let sig = if collide_cmd { "cmd-key-collision" } else { "not-skipped" };
                return fail(
                    res,
                    sig,
                    format!(
                        "nothing the target declares changed (edits: {:?}) yet the second invocation ran the script again",
                        labels
                    ),
                    detail,
                );
            }
            // further invocations over the untouched tree
            let mut prev_skipped_or_ran = true;
            for k in 0..case.extra_invocations {
                let s_before = snapshot_resources(&all);
                let (r, _ran) = match call_incremental(b) {
                    Ok(x) => x,
                    Err(e) => {
                        res.inconclusive = Some(format!("run failed: {}", e));
                        return res;
                    }
                };
                let storable_now = s_before.cmds.values().all(|v| v.is_some());
                if prev_skipped_or_ran && storable_now && r != IncrementalRunResult::Skipped {
                    let sig = if collide_cmd { "cmd-key-collision" } else { "not-skipped-repeat" };
                    return fail(
                        res,
                        sig,
                        format!("invocation #{} over an untouched tree ran the script again", 3 + k),
                        detail,
                    );
                }
                prev_skipped_or_ran = true;
            }
        }
        _ => {}
    }
    res.classes = classes;
    res
}

pub fn replay_inc(v: &Value) -> Result<CaseResult, String> {
    let which = v["engine"].as_str().unwrap_or("").trim_start_matches("INC-").to_string();
    let c: IncCase = serde_json::from_value(v["case"].clone()).map_err(|e| format!("bad INC case: {}", e))?;
    Ok(eval_inc(&c, &which))
}

/// The same histories through the real binary (main -> actors -> incremental step).
pub fn eval_inc_bb(case: &IncCase, which: &str) -> CaseResult {
    catch_case(
        &format!("bb-{}:panic", which),
        |msg| json!({"engine": format!("BBINC-{}", which), "case": serde_json::to_value(case).unwrap(), "message": msg}),
        || eval_inc_bb_inner(case, which),
    )
}

fn eval_inc_bb_inner(case: &IncCase, which: &str) -> CaseResult {
    let mut res = CaseResult::default();
    let w = match build_world(case, which) {
        Ok(w) => w,
        Err(e) => {
            res.inconclusive = Some(e);
            return res;
        }
    };
    let args = vec!["c".to_string()];
    let spelling = std::cell::Cell::new(0u8);
    let run = |w: &World| -> Option<(bool, ZOutcome)> {
        w.sb.clear_trace();
        // the project directory is spelled differently from one invocation to the next
        let k = spelling.get();
        spelling.set(k + 1);
        let dir = match (k + case.extra_invocations) % 3 {
            0 => w.root.clone(),
            1 => w.root.join("src").join(".."),
            _ => {
                let link = w.sb.path("plink");
                if std::fs::symlink_metadata(&link).is_err() {
                    let _ = std::os::unix::fs::symlink(&w.root, &link);
                }
                link
            }
        };
        let out = run_zinoma(&w.sb, &dir, &args, &[], std::time::Duration::from_secs(40), true);
        if out.timed_out {
            return None;
        }
        Some((started(&w.sb.trace(), "c") > 0, out))
    };
    if case.kill_first && which == "c02" {
        // the script of the very first invocation is killed by a signal: the target never ran to
        // successful completion, so the next invocation (nothing edited) must run it
        w.sb.write("killme", b"1");
        let (ran0, out0) = match run(&w) {
            Some(x) => x,
            None => {
                res.inconclusive = Some("still busy".into());
                return res;
            }
        };
        let _ = std::fs::remove_file(w.sb.path("killme"));
        if ran0 {
            let (ran_next, _o) = match run(&w) {
                Some(x) => x,
                None => {
                    res.inconclusive = Some("still busy".into());
                    return res;
                }
            };
            res.classes = vec!["first-script-killed".into()];
            res.nontrivial = true;
            res.fingerprint = format!("killed-first|{}", case.layout);
            res.sample = json!({"layout": case.layout, "first_invocation": "script killed by SIGKILL", "first_exit": out0.code(), "next_invocation": if ran_next {"ran"} else {"skipped"}});
            if !ran_next {
                let msg = "real binary: the first run's script was killed by a signal, yet the next invocation reports the build as skipped (it never ran to successful completion)".to_string();
                res.signature = Some("bb-c02:skipped-after-killed-script".into());
                res.replay = json!({"engine": "BBINC-c02", "case": serde_json::to_value(case).unwrap(), "message": msg});
                res.violation = Some(msg);
            }
            return res;
        }
    }
    let (ran1, out1) = match run(&w) {
        Some(x) => x,
        None => {
            res.inconclusive = Some("still busy".into());
            return res;
        }
    };
    let fail = |mut res: CaseResult, sig: &str, msg: String, labels: &Vec<String>| {
        res.signature = Some(format!("bb-{}:{}", which, sig));
        res.replay = json!({"engine": format!("BBINC-{}", which), "case": serde_json::to_value(case).unwrap(), "message": msg, "edits": labels});
        res.violation = Some(msg);
        res
    };
    let none: Vec<String> = vec![];
    if !out1.success() {
        res.inconclusive = Some(format!("first invocation failed: {}", out1.stderr.lines().last().unwrap_or("")));
        return res;
    }
    if !ran1 {
        return fail(res, "skipped-without-record", "the first invocation skipped the consumer although nothing was recorded".into(), &none);
    }
    let mut all = w.input.clone();
    all.extend(w.output.iter().cloned());
    let s1 = snapshot_resources(&all);
    let storable = s1.cmds.values().all(|v| v.is_some());
    let mut counter = 0i64;
    let mut labels: Vec<String> = vec![];
    for (op, sel) in &case.edits {
        let op = if case.neutral_only { NEUTRAL_OPS[*op as usize % NEUTRAL_OPS.len()] } else { *op };
        if let Some(l) = apply_edit(&w, case, op, *sel, &mut counter) {
            labels.push(l);
        }
    }
    let s2 = snapshot_resources(&all);
    let (ran2, out2) = match run(&w) {
        Some(x) => x,
        None => {
            res.inconclusive = Some("still busy".into());
            return res;
        }
    };
    // a failing declared command makes the invocation fail legitimately? No: it only forces a run.
    let same = unchanged(&s1, &s2);
    let allowed = skip_allowed(&s1, &s2);
    res.nontrivial = !same || case.layout >= 2;
    res.fingerprint = format!("{}|{:?}|{}", case.layout, labels.iter().collect::<BTreeSet<_>>(), same);
    res.classes = vec![format!("layout-{}", case.layout), if same { "unchanged".into() } else { "changed".into() }];
    res.sample = json!({"layout": case.layout, "edits": labels, "second_invocation": if ran2 {"ran"} else {"skipped"}, "model_unchanged": same});
    if !out2.success() {
        // a deleted producer output etc. never makes the consumer's decision fail
        if s2.cmds.values().all(|v| v.is_some()) {
            return fail(res, "error", format!("second invocation failed: {}", out2.stderr.lines().last().unwrap_or("")), &labels);
        }
        return res;
    }
    if !ran2 {
        if let Err(why) = &allowed {
            return fail(res, "wrong-skip", format!("real binary: consumer skipped although {} (edits: {:?})", why, labels), &labels);
        }
    } else if same && storable && which != "c02" {
        return fail(res, "not-skipped", format!("real binary: nothing the consumer declares changed (edits: {:?}) yet its script ran again", labels), &labels);
    }
    res
}

pub fn replay_inc_bb(v: &Value) -> Result<CaseResult, String> {
    let which = v["engine"].as_str().unwrap_or("").trim_start_matches("BBINC-").to_string();
    let c: IncCase = serde_json::from_value(v["case"].clone()).map_err(|e| format!("bad case: {}", e))?;
    Ok(eval_inc_bb(&c, &which))
}
