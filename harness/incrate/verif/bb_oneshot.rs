//! Black-box runs of generated graphs through the real binary (one-shot mode), with oracles for
//! the BB parts of C01, C07, C08, C11, C17 and C20.

use super::bb::*;
use super::bb_graph::*;
use super::graph::*;
use super::prop::*;
use proptest::prelude::*;
use serde::{Deserialize, Serialize};
use serde_json::{json, Map, Value};
use std::collections::{BTreeMap, BTreeSet};
use std::time::{Duration, Instant};

#[derive(Debug, Clone, Serialize, Deserialize)]
pub struct BbCase {
    pub graph: Graph,
    pub roots: Vec<usize>,
    /// Per target: script duration in ms (builds).
    pub sleep_ms: Vec<u8>,
    /// Per target: exit status of the build script (0 = success).
    pub exit_code: Vec<u8>,
    pub qualified: bool,
    /// Mutually independent targets that wait for each other (C17); empty otherwise.
    pub rendezvous: Vec<usize>,
    /// Every build target declares an input directory (so that state is computed and stored).
    #[serde(default)]
    pub with_inputs: bool,
    /// Builds rewrite a file in the input directory of one of their (already finished) build
    /// dependencies: in a one-shot run nothing is watching, so nothing may run twice.
    #[serde(default)]
    pub touch_dep_input: bool,
    /// async-std runtime threads of the zinoma process (0 = default, one per core): the real
    /// executor is sampled on single-threaded, narrow and wide configurations.
    #[serde(default)]
    pub runtime_threads: u8,
}

const READ_ST: &str =
    "read -r _ _ _ _ _ _ _ _ _ _ _ _ _ _ _ _ _ _ _ _ _ st _ < /proc/$$/stat";

pub fn bb_build_script(case: &BbCase, i: usize) -> String {
    let g = &case.graph;
    let id = g.ids(i);
    let mut s = String::new();
    s.push_str(READ_ST);
    s.push_str(&format!("\necho \"S {} $$ $st\" >> \"$ZV_TRACE\"\n", id));
    let svc: Vec<usize> = g
        .leaf_deps(i)
        .into_iter()
        .filter(|&d| g.targets[d].kind == Kind::Service)
        .collect();
    for &d in &svc {
        let f = format!("$ZV_ROOT/svc.{}.pid", g.ids(d).replace("::", "__"));
        s.push_str(&format!(
            "i=0; while [ ! -e \"{f}\" ] && [ $i -lt 150 ]; do i=$((i+1)); sleep 0.02; done\n\
             if [ -e \"{f}\" ]; then kill -0 $(cat \"{f}\") 2>/dev/null || echo \"X {id} $$ dead-at-start:{d}\" >> \"$ZV_TRACE\"; else echo \"X {id} $$ nopid:{d}\" >> \"$ZV_TRACE\"; fi\n",
            f = f,
            id = id,
            d = g.ids(d)
        ));
    }
    if case.touch_dep_input {
        if let Some(d) = g.edges(i).into_iter().find(|&d| g.targets[d].kind == Kind::Build && g.targets[d].proj == g.targets[i].proj) {
            s.push_str(&format!("echo \"changed by {}\" >> in_{}/x.txt\nsleep 0.1\n", id, d));
        }
    }
    let ms = case.sleep_ms.get(i).copied().unwrap_or(0);
    if ms > 0 {
        s.push_str(&format!("sleep 0.{:03}\n", ms));
    }
    if case.rendezvous.contains(&i) {
        s.push_str(&format!("touch \"$ZV_ROOT/here.{}\"\n", i));
        let cond: Vec<String> = case
            .rendezvous
            .iter()
            .map(|j| format!("[ ! -e \"$ZV_ROOT/here.{}\" ]", j))
            .collect();
        s.push_str(&format!(
            "i=0; while {}; do i=$((i+1)); if [ $i -gt 2000 ]; then echo \"X {} $$ rendezvous-timeout\" >> \"$ZV_TRACE\"; exit 7; fi; sleep 0.01; done\n",
            cond.join(" || "),
            id
        ));
    }
    for &d in &svc {
        let f = format!("$ZV_ROOT/svc.{}.pid", g.ids(d).replace("::", "__"));
        s.push_str(&format!(
            "if [ -e \"{f}\" ]; then kill -0 $(cat \"{f}\") 2>/dev/null || echo \"X {id} $$ dead-at-end:{d}\" >> \"$ZV_TRACE\"; fi\n",
            f = f,
            id = id,
            d = g.ids(d)
        ));
    }
    let e = case.exit_code.get(i).copied().unwrap_or(0);
    if e == 254 {
        // the script's own shell dies from a signal
        s.push_str("kill -9 $$\n");
    } else if e != 0 {
        s.push_str(&format!("exit {}\n", e));
    }
    s.push_str(&format!("echo \"F {} $$\" >> \"$ZV_TRACE\"", id));
    s
}

pub fn bb_service_script(g: &Graph, i: usize) -> String {
    let id = g.ids(i);
    let f = format!("$ZV_ROOT/svc.{}.pid", id.replace("::", "__"));
    format!(
        "{read}\necho $$ > \"{f}.tmp\"; mv \"{f}.tmp\" \"{f}\"\necho \"V {id} $$ $st\" >> \"$ZV_TRACE\"\nexec sleep 100000",
        read = READ_ST,
        f = f,
        id = id
    )
}

pub fn write_bb_project(sb: &Sandbox, case: &BbCase) -> std::path::PathBuf {
    let g = &case.graph;
    for p in 0..g.nproj {
        let mut targets = Map::new();
        for (i, t) in g.targets.iter().enumerate() {
            if t.proj != p {
                continue;
            }
            let deps: Vec<String> = t.deps.iter().map(|&j| g.reference(i, j)).collect();
            let mut input: Vec<Value> = t
                .outdeps
                .iter()
                .map(|&j| json!(format!("{}.output", g.reference(i, j))))
                .collect();
            if case.with_inputs && t.kind == Kind::Build {
                input.push(json!({"paths": [format!("in_{}", i)]}));
                sb.write(&format!("{}/in_{}/x.txt", proj_rel(p), i), format!("input of {}\n", i).as_bytes());
            }
            let doc = match t.kind {
                Kind::Build => json!({
                    "dependencies": deps,
                    "build": bb_build_script(case, i),
                    "input": input,
                }),
                Kind::Service => json!({
                    "dependencies": deps,
                    "service": bb_service_script(g, i),
                    "input": input,
                }),
                Kind::Aggregate => json!({ "dependencies": deps }),
            };
            targets.insert(g.tname(i), doc);
        }
        let mut doc = Map::new();
        if let Some(name) = g.proj_name(p) {
            doc.insert("name".into(), json!(name));
        }
        if p == 0 && g.nproj > 1 {
            let mut imports = Map::new();
            for q in 1..g.nproj {
                imports.insert(format!("p{}", q), json!(format!("p{}", q)));
            }
            doc.insert("imports".into(), Value::Object(imports));
        }
        doc.insert("targets".into(), Value::Object(targets));
        write_project(&sb.path(&proj_rel(p)), &Value::Object(doc));
    }
    sb.path("proj")
}

#[derive(Debug, Clone)]
pub struct BbObs {
    pub status_code: Option<i32>,
    pub killed_by_signal: Option<i32>,
    pub stdout: String,
    pub stderr: String,
    pub trace: Vec<TraceLine>,
    /// zinoma was found alive and idle (only service children, CPU flat); we then sent SIGTERM.
    pub idle_alive: bool,
    pub trace_len_at_idle: usize,
    pub term_latency: Option<Duration>,
    pub term_ignored: bool,
    pub leaked: Vec<i32>,
    pub timed_out: bool,
    pub wall: Duration,
    /// Planted state files (target id -> bytes still there and unmodified?) after the run.
    pub planted_intact: BTreeMap<String, bool>,
}

fn service_pids(trace: &[TraceLine]) -> BTreeSet<i32> {
    trace
        .iter()
        .filter(|t| t.kind == 'V')
        .map(|t| t.pid)
        .collect()
}

/// Runs the case to completion; if zinoma goes idle while alive it is terminated with SIGTERM.
pub fn run_bb_case(case: &BbCase, extra_args: &[String], tag: &str) -> BbObs {
    set_runtime_threads(case.runtime_threads);
    let g = &case.graph;
    let sb = Sandbox::new(tag);
    let dir = write_bb_project(&sb, case);
    // a dummy record (and an output file) for every target: nothing outside the closure may be
    // touched by the run
    let mut planted: Vec<(String, std::path::PathBuf, std::time::SystemTime)> = vec![];
    for i in 0..g.n() {
        if g.targets[i].kind == Kind::Aggregate {
            continue;
        }
        let rel = format!("{}/.zinoma/{}.checksums", proj_rel(g.targets[i].proj), g.ids(i));
        sb.write(&rel, format!("d{}", i).as_bytes());
        let p = sb.path(&rel);
        let mt = std::fs::metadata(&p).and_then(|m| m.modified()).unwrap_or(std::time::UNIX_EPOCH);
        planted.push((g.ids(i), p, mt));
    }
    let mut args: Vec<String> = extra_args.to_vec();
    for (k, &r) in case.roots.iter().enumerate() {
        args.push(cli_name(g, r, case.qualified && k % 2 == 0));
    }
    let mut obs = run_and_observe(&sb, &dir, &args, Duration::from_secs(90));
    for (i, (id, p, mt)) in planted.iter().enumerate() {
        let _ = i;
        let intact = std::fs::read(p).ok().is_some_and(|b| b.starts_with(b"d") && b.len() <= 4)
            && std::fs::metadata(p).and_then(|m| m.modified()).ok() == Some(*mt);
        obs.planted_intact.insert(id.clone(), intact);
    }
    obs
}

pub fn run_and_observe(
    sb: &Sandbox,
    dir: &std::path::Path,
    args: &[String],
    budget: Duration,
) -> BbObs {
    let mut z = spawn_zinoma(sb, dir, args, &[]);
    let start = Instant::now();
    let mut idle_alive = false;
    let mut trace_len_at_idle = 0;
    let mut term_sent_at: Option<Instant> = None;
    let mut term_latency = None;
    let mut term_ignored = false;
    let mut timed_out = false;
    let mut status = None;
    let mut next_probe = Instant::now() + Duration::from_millis(300);
    loop {
        if let Some(s) = z.try_exit() {
            status = Some(s);
            if let Some(t) = term_sent_at {
                term_latency = Some(t.elapsed());
            }
            break;
        }
        let now = Instant::now();
        if let Some(t) = term_sent_at {
            if t.elapsed() > Duration::from_secs(30) {
                term_ignored = true;
                break;
            }
        } else if now >= next_probe {
            // idle? (children only services; CPU flat; threads asleep)
            let svc = service_pids(&sb.trace());
            let kids = children_of(z.pid);
            if kids.iter().all(|k| svc.contains(k)) && proc_threads_all_sleeping(z.pid) {
                let c0 = proc_cpu_ticks(z.pid);
                let mut flat = true;
                for _ in 0..2 {
                    std::thread::sleep(Duration::from_millis(150));
                    let svc = service_pids(&sb.trace());
                    if !children_of(z.pid).iter().all(|k| svc.contains(k))
                        || !proc_threads_all_sleeping(z.pid)
                        || proc_cpu_ticks(z.pid) != c0
                    {
                        flat = false;
                        break;
                    }
                }
                if flat && z.try_exit().is_none() {
                    idle_alive = true;
                    trace_len_at_idle = sb.trace().len();
                    z.signal(libc::SIGTERM);
                    term_sent_at = Some(Instant::now());
                }
            }
            next_probe = Instant::now() + Duration::from_millis(100);
        }
        if start.elapsed() > budget {
            timed_out = true;
            break;
        }
        std::thread::sleep(Duration::from_millis(3));
    }
    if status.is_none() {
        let _ = z.child.kill();
        let _ = z.child.wait();
    }
    let stdout = z.stdout_so_far();
    let stderr = z.stderr_so_far();
    // give killed children a moment to disappear, then look for leaks
    let mut leaked = sb.marked_processes();
    let t0 = Instant::now();
    while !leaked.is_empty() && t0.elapsed() < Duration::from_millis(300) {
        std::thread::sleep(Duration::from_millis(20));
        leaked = sb.marked_processes();
    }
    let trace = sb.trace();
    BbObs {
        status_code: status.and_then(|s| s.code()),
        killed_by_signal: status.and_then(|s| std::os::unix::process::ExitStatusExt::signal(&s)),
        stdout,
        stderr,
        trace,
        idle_alive,
        trace_len_at_idle,
        term_latency,
        term_ignored,
        leaked,
        timed_out,
        wall: start.elapsed(),
        planted_intact: BTreeMap::new(),
    }
}

// ---------------------------------------------------------------------------
// Generator

#[derive(Debug, Clone, Copy)]
pub struct BbParams {
    pub max_n: usize,
    pub failures: bool,
    pub services: bool,
    pub rendezvous: bool,
}

impl BbParams {
    fn with_inputs(&self) -> bool {
        self.rendezvous || self.touch_dep_input()
    }
    /// C08 cases (failures on, no rendezvous) with an even seed byte.
    fn touch_dep_input(&self) -> bool {
        self.failures && !self.rendezvous && self.max_n == 9
    }
}

pub fn bb_case(p: BbParams) -> impl Strategy<Value = BbCase> {
    (
        raw_graph(p.max_n),
        prop::collection::vec(any::<u8>(), 1..=3),
        prop::collection::vec(0u8..40, p.max_n),
        prop::collection::vec(any::<u8>(), p.max_n),
        any::<bool>(),
        prop::sample::select(vec![0u8, 0, 0, 1, 1, 2, 4]),
    )
        .prop_map(move |(raw, rootsel, sleep_ms, fail, qualified, runtime_threads)| {
            let mut graph = build_graph(&raw);
            if !p.services {
                for t in graph.targets.iter_mut() {
                    if t.kind == Kind::Service {
                        t.kind = Kind::Build;
                    }
                }
            }
            let n = graph.n();
            let roots = pick_roots(&graph, &rootsel);
            let exit_code = (0..n)
                .map(|i| {
                    if p.failures && graph.targets[i].kind == Kind::Build && fail[i] >= 215 {
                        [1u8, 254, 2, 254, 3, 126, 254, 127, 130, 255, 254][(fail[i] as usize) % 11]
                    } else {
                        0
                    }
                })
                .collect();
            let mut rendezvous = vec![];
            if p.rendezvous {
                // greedy antichain among the closure's build targets
                let clo = graph.closure(&roots);
                for &i in clo.iter().rev() {
                    if graph.targets[i].kind != Kind::Build {
                        continue;
                    }
                    if rendezvous.iter().all(|&j: &usize| {
                        !graph.trans_deps(i).contains(&j) && !graph.trans_deps(j).contains(&i)
                    }) {
                        rendezvous.push(i);
                    }
                    if rendezvous.len() >= 8 {
                        break;
                    }
                }
                if rendezvous.len() < 2 {
                    rendezvous.clear();
                }
            }
            BbCase {
                graph,
                roots,
                sleep_ms,
                exit_code,
                qualified,
                rendezvous,
                with_inputs: p.with_inputs(),
                touch_dep_input: p.touch_dep_input(),
                runtime_threads,
            }
        })
}

pub fn bb_summary(case: &BbCase) -> Value {
    let g = &case.graph;
    json!({
        "targets": (0..g.n()).map(|i| format!("{}:{:?} deps={:?} out={:?} sleep={}ms exit={}",
            g.ids(i), g.targets[i].kind,
            g.targets[i].deps.iter().map(|&j| g.ids(j)).collect::<Vec<_>>(),
            g.targets[i].outdeps.iter().map(|&j| g.ids(j)).collect::<Vec<_>>(),
            case.sleep_ms.get(i).copied().unwrap_or(0), case.exit_code.get(i).copied().unwrap_or(0))).collect::<Vec<_>>(),
        "requested": case.roots.iter().map(|&r| g.ids(r)).collect::<Vec<_>>(),
        "rendezvous": case.rendezvous.iter().map(|&r| g.ids(r)).collect::<Vec<_>>(),
        "runtime_threads": case.runtime_threads,
    })
}

fn obs_json(obs: &BbObs) -> Value {
    json!({
        "exit_code": obs.status_code,
        "signal": obs.killed_by_signal,
        "idle_alive": obs.idle_alive,
        "term_latency_ms": obs.term_latency.map(|d| d.as_millis() as u64),
        "leaked": obs.leaked,
        "trace": obs.trace.iter().map(|t| format!("{} {} {} {}", t.kind, t.id, t.pid, t.extra)).collect::<Vec<_>>(),
        "stderr_tail": obs.stderr.lines().rev().take(12).collect::<Vec<_>>().into_iter().rev().collect::<Vec<_>>(),
    })
}

pub fn bb_replay_value(case: &BbCase, obs: &BbObs, which: &str) -> Value {
    json!({
        "engine": "BB",
        "oracle": which,
        "summary": bb_summary(case),
        "case": serde_json::to_value(case).unwrap(),
        "observed": obs_json(obs),
    })
}

fn declared_failing(case: &BbCase) -> BTreeSet<usize> {
    (0..case.graph.n())
        .filter(|&i| case.exit_code.get(i).copied().unwrap_or(0) != 0)
        .collect()
}

fn st_of(t: &TraceLine) -> Option<u64> {
    t.extra.split_whitespace().next()?.parse().ok()
}

fn names_target(msg: &str, id: &str) -> bool {
    msg.split(|c: char| !(c.is_alphanumeric() || c == '_' || c == '-' || c == ':'))
        .any(|tok| tok.trim_end_matches(':') == id)
}

fn base(case: &BbCase, obs: &BbObs) -> CaseResult {
    let mut classes: Vec<String> = case
        .graph
        .classes(&case.roots)
        .into_iter()
        .map(|s| s.to_string())
        .collect();
    if !declared_failing(case).is_empty() {
        classes.push("has-failing-script".into());
    }
    if case.runtime_threads > 0 {
        classes.push(format!("runtime-threads-{}", case.runtime_threads));
    }
    let mut r = CaseResult {
        classes,
        sample: bb_summary(case),
        ..Default::default()
    };
    if obs.timed_out {
        r.inconclusive = Some("still busy at wall budget".into());
    }
    r
}

fn viol(mut r: CaseResult, case: &BbCase, obs: &BbObs, which: &str, sig: &str, msg: String) -> CaseResult {
    r.replay = bb_replay_value(case, obs, which);
    r.signature = Some(format!("bb:{}:{}", which, sig));
    r.violation = Some(msg);
    r
}

// --- C01 ------------------------------------------------------------------

pub fn bb_oracle_c01(case: &BbCase, obs: &BbObs) -> CaseResult {
    let g = &case.graph;
    let mut r = base(case, obs);
    if r.inconclusive.is_some() {
        return r;
    }
    let mut multi = false;
    let mut via_agg = false;
    for (k, line) in obs.trace.iter().enumerate() {
        if line.kind != 'S' && line.kind != 'V' {
            continue;
        }
        let i = match g.index_of(&line.id) {
            Some(i) => i,
            None => continue,
        };
        let leafs = g.leaf_deps(i);
        if leafs.len() >= 2 {
            multi = true;
        }
        if g.edges(i)
            .iter()
            .any(|&n| g.targets[n].kind == Kind::Aggregate && !g.edges(n).is_empty())
        {
            via_agg = true;
        }
        for d in leafs {
            let did = g.ids(d);
            match g.targets[d].kind {
                Kind::Build => {
                    if !obs.trace[..k].iter().any(|t| t.kind == 'F' && t.id == did) {
                        return viol(
                            r,
                            case,
                            obs,
                            "c01",
                            "build-dep",
                            format!(
                                "{} was started (trace line {}) before its dependency {} finished",
                                line.id, k, did
                            ),
                        );
                    }
                }
                Kind::Service => {
                    // spawn order through kernel start ticks (the service shell may write its
                    // line late, but it was forked before)
                    if let Some(v) = obs.trace.iter().find(|t| t.kind == 'V' && t.id == did) {
                        if let (Some(sv), Some(st)) = (st_of(v), st_of(line)) {
                            if sv > st {
                                return viol(
                                    r,
                                    case,
                                    obs,
                                    "c01",
                                    "service-dep",
                                    format!(
                                        "{} was spawned (start tick {}) before the service {} it depends on (start tick {})",
                                        line.id, st, did, sv
                                    ),
                                );
                            }
                        }
                    }
                }
                Kind::Aggregate => {}
            }
        }
    }
    r.nontrivial = multi || via_agg;
    r.fingerprint = format!("{:?}|{}|{}", r.classes, multi, via_agg);
    r
}

// --- C07 ------------------------------------------------------------------

pub fn bb_oracle_c07(case: &BbCase, obs: &BbObs) -> CaseResult {
    let g = &case.graph;
    let mut r = base(case, obs);
    if r.inconclusive.is_some() {
        return r;
    }
    let failing = declared_failing(case);
    // actually failed: started, no F line
    let failed: Vec<String> = failing
        .iter()
        .map(|&i| g.ids(i))
        .filter(|id| started(&obs.trace, id) > 0)
        .collect();
    for line in &obs.trace {
        if line.kind == 'S' || line.kind == 'V' {
            if let Some(i) = g.index_of(&line.id) {
                if let Some(d) = g.trans_deps(i).iter().find(|d| failing.contains(d)) {
                    return viol(
                        r,
                        case,
                        obs,
                        "c07",
                        "dependent-started",
                        format!(
                            "{} was started although it depends on {} whose script exits {}",
                            line.id,
                            g.ids(*d),
                            case.exit_code[*d]
                        ),
                    );
                }
            }
        }
    }
    let clo = g.closure(&case.roots);
    let has_dependent = failing
        .iter()
        .any(|f| clo.iter().any(|&t| g.trans_deps(t).contains(f)));
    r.nontrivial = !failed.is_empty() && has_dependent;
    r.fingerprint = format!("{:?}|{}|{}", r.classes, failed.len().min(3), has_dependent);
    if !failed.is_empty() {
        r.classes.push("failure-happened".into());
        if obs.idle_alive {
            return viol(
                r,
                case,
                obs,
                "c07",
                "idle-after-failure",
                format!("{:?} failed but zinoma stayed alive and idle", failed),
            );
        }
        if obs.status_code == Some(0) {
            return viol(
                r,
                case,
                obs,
                "c07",
                "exit-zero",
                format!("{:?} failed but zinoma exited with status 0", failed),
            );
        }
        if obs.status_code.is_none() {
            return viol(
                r,
                case,
                obs,
                "c07",
                "abnormal-exit",
                format!("{:?} failed and zinoma died from signal {:?}", failed, obs.killed_by_signal),
            );
        }
        if !failed.iter().any(|f| names_target(&obs.stderr, f)) {
            return viol(
                r,
                case,
                obs,
                "c07",
                "not-named",
                format!("stderr names none of the failed targets {:?}", failed),
            );
        }
    } else if failing.iter().all(|f| !clo.contains(f)) && obs.status_code != Some(0) && !obs.idle_alive {
        return viol(
            r,
            case,
            obs,
            "c07",
            "spurious-failure",
            format!("no script fails but zinoma exited with {:?}", obs.status_code),
        );
    }
    r
}

// --- C08 ------------------------------------------------------------------

pub fn bb_oracle_c08(case: &BbCase, obs: &BbObs) -> CaseResult {
    let g = &case.graph;
    let mut r = base(case, obs);
    if r.inconclusive.is_some() {
        return r;
    }
    let clo = g.closure(&case.roots);
    let mut requesters: BTreeMap<usize, usize> = BTreeMap::new();
    for &i in &clo {
        for j in g.edges(i) {
            *requesters.entry(j).or_default() += 1;
        }
    }
    for &x in &case.roots {
        *requesters.entry(x).or_default() += 1;
    }
    let shared = requesters.values().filter(|&&k| k >= 2).count();
    r.nontrivial = shared > 0;
    r.fingerprint = format!("{:?}|shared={}", r.classes, shared.min(4));
    for i in 0..g.n() {
        let id = g.ids(i);
        let s = started(&obs.trace, &id) + svc_started(&obs.trace, &id);
        if s > 1 {
            return viol(
                r,
                case,
                obs,
                "c08",
                "twice",
                format!("{} was started {} times in one one-shot run", id, s),
            );
        }
        if !clo.contains(&i) && s > 0 {
            return viol(
                r,
                case,
                obs,
                "c08",
                "outside",
                format!("{} is outside the requested closure but was started", id),
            );
        }
        if !clo.contains(&i) && obs.planted_intact.get(&id) == Some(&false) {
            return viol(
                r,
                case,
                obs,
                "c08",
                "state-touched",
                format!("{} is outside the requested closure but its recorded state was deleted or rewritten", id),
            );
        }
    }
    let failing = declared_failing(case);
    let success = obs.status_code == Some(0) && failing.iter().all(|f| !clo.contains(f));
    if success {
        for &i in &clo {
            let id = g.ids(i);
            match g.targets[i].kind {
                Kind::Build => {
                    let (s, f) = (started(&obs.trace, &id), finished(&obs.trace, &id));
                    if s != 1 || f != 1 {
                        return viol(
                            r,
                            case,
                            obs,
                            "c08",
                            "not-once",
                            format!(
                                "exit 0 but {} started {} / finished {} times",
                                id, s, f
                            ),
                        );
                    }
                }
                Kind::Service => {
                    // the service shell is forked by then; its trace line may be cut short by
                    // the kill at exit, so only ">1" is decidable (checked above)
                }
                Kind::Aggregate => {}
            }
        }
    }
    r
}

// --- C11 ------------------------------------------------------------------

pub fn bb_oracle_c11(case: &BbCase, obs: &BbObs) -> CaseResult {
    let g = &case.graph;
    let mut r = base(case, obs);
    if r.inconclusive.is_some() {
        return r;
    }
    let clo = g.closure(&case.roots);
    let services: Vec<usize> = clo
        .iter()
        .copied()
        .filter(|&i| g.targets[i].kind == Kind::Service)
        .collect();
    let failing = declared_failing(case);
    let no_failure = failing.iter().all(|f| !clo.contains(f));
    let rr = case.roots.iter().any(|&x| g.has_service_behind(x));
    let mut feats = BTreeSet::new();
    for &s in &services {
        if case.roots.contains(&s) && clo.iter().any(|&t| g.edges(t).contains(&s)) {
            feats.insert("requested-and-depended-on");
        }
        if clo
            .iter()
            .any(|&t| g.targets[t].kind == Kind::Aggregate && g.edges(t).contains(&s))
        {
            feats.insert("through-aggregate");
        }
        if clo
            .iter()
            .any(|&t| g.targets[t].kind == Kind::Build && g.leaf_deps(t).contains(&s))
        {
            feats.insert("build-needs-service");
        }
    }
    r.nontrivial = !services.is_empty() && !feats.is_empty();
    r.fingerprint = format!("{:?}|{:?}|R={}", r.classes, feats, rr);
    for f in &feats {
        r.classes.push(f.to_string());
    }
    if let Some(x) = obs.trace.iter().find(|t| {
        t.kind == 'X'
            && !t.extra.contains("rendezvous")
            && !(t.extra.starts_with("nopid:") && {
                // pid file late but the service did run: a slow machine, not a finding
                let svc = t.extra.trim_start_matches("nopid:");
                obs.trace.iter().any(|v| v.kind == 'V' && v.id == svc)
            })
    }) {
        // "X <build> <pid> dead-at-start:<svc>" etc.
        let what = format!("{}", x.extra);
        // nopid: the service never wrote its pid file within 3 s of the build's start
        return viol(
            r,
            case,
            obs,
            "c11",
            "service-not-alive",
            format!("build {} found a service it depends on not running: {}", x.id, what),
        );
    }
    if !obs.leaked.is_empty() {
        return viol(
            r,
            case,
            obs,
            "c11",
            "leak",
            format!(
                "processes spawned for this run are still alive after zinoma exited: {:?}",
                obs.leaked
            ),
        );
    }
    if obs.term_ignored {
        return viol(
            r,
            case,
            obs,
            "c11",
            "term-ignored",
            "SIGTERM sent to an idle zinoma was not honoured within 30 s".into(),
        );
    }
    if no_failure {
        // all builds done?
        let all_done = clo
            .iter()
            .all(|&i| g.targets[i].kind != Kind::Build || finished(&obs.trace, &g.ids(i)) > 0);
        if all_done {
            if rr && !obs.idle_alive {
                return viol(
                    r,
                    case,
                    obs,
                    "c11",
                    "no-keep-alive",
                    format!(
                        "a service is requested (directly or through an aggregate) but zinoma exited by itself with {:?}",
                        obs.status_code
                    ),
                );
            }
            if !rr && obs.idle_alive {
                return viol(
                    r,
                    case,
                    obs,
                    "c11",
                    "spurious-keep-alive",
                    "no service is requested, all builds are done, but zinoma stays alive".into(),
                );
            }
        }
        if let Some(l) = obs.term_latency {
            if l > Duration::from_secs(5) {
                return viol(
                    r,
                    case,
                    obs,
                    "c11",
                    "slow-exit",
                    format!("exit took {:?} after SIGTERM while only services were running", l),
                );
            }
        }
    }
    r
}

// --- C17 ------------------------------------------------------------------

pub fn bb_oracle_c17(case: &BbCase, obs: &BbObs) -> CaseResult {
    let g = &case.graph;
    let mut r = base(case, obs);
    if r.inconclusive.is_some() {
        return r;
    }
    let k = case.rendezvous.len();
    let with_dep = case.rendezvous.iter().any(|&i| !g.edges(i).is_empty());
    r.nontrivial = k >= 2 && with_dep;
    r.fingerprint = format!("{:?}|k={}", r.classes, k);
    r.classes.push(format!("antichain-{}", k));
    if k < 2 {
        return r;
    }
    if let Some(x) = obs.trace.iter().find(|t| t.kind == 'X' && t.extra.contains("rendezvous")) {
        // which members never even started?
        let missing: Vec<String> = case
            .rendezvous
            .iter()
            .map(|&i| g.ids(i))
            .filter(|id| started(&obs.trace, id) == 0)
            .collect();
        return viol(
            r,
            case,
            obs,
            "c17",
            "serialised",
            format!(
                "independent targets {:?} must overlap, but {} waited 20 s for the others; never started: {:?}",
                case.rendezvous.iter().map(|&i| g.ids(i)).collect::<Vec<_>>(),
                x.id,
                missing
            ),
        );
    }
    r
}

// --- C20 (metamorphic pair) -------------------------------------------------

pub fn observable(case: &BbCase, obs: &BbObs) -> Value {
    let ran: BTreeSet<String> = obs
        .trace
        .iter()
        .filter(|t| t.kind == 'F')
        .map(|t| t.id.clone())
        .collect();
    let svcs: BTreeSet<String> = obs
        .trace
        .iter()
        .filter(|t| t.kind == 'V')
        .map(|t| t.id.clone())
        .collect();
    let _ = case;
    json!({
        "ran": ran,
        "services": svcs,
        "kept_alive": obs.idle_alive,
        "ok": obs.status_code == Some(0),
    })
}

// ---------------------------------------------------------------------------

pub type BbOracle = fn(&BbCase, &BbObs) -> CaseResult;

pub fn bb_oracle_by_name(name: &str) -> Option<BbOracle> {
    match name {
        "c01" => Some(bb_oracle_c01),
        "c07" => Some(bb_oracle_c07),
        "c08" => Some(bb_oracle_c08),
        "c11" => Some(bb_oracle_c11),
        "c17" => Some(bb_oracle_c17),
        _ => None,
    }
}

pub fn eval_bb(case: &BbCase, name: &str) -> CaseResult {
    let obs = run_bb_case(case, &[], name);
    (bb_oracle_by_name(name).expect("oracle"))(case, &obs)
}

pub fn replay_bb(v: &Value) -> Result<Option<CaseResult>, String> {
    let name = v["oracle"].as_str().unwrap_or("");
    if bb_oracle_by_name(name).is_none() {
        return Ok(None);
    }
    let case: BbCase =
        serde_json::from_value(v["case"].clone()).map_err(|e| format!("bad BB case: {}", e))?;
    Ok(Some(eval_bb(&case, name)))
}

pub fn eval_c20_bb(case: &BbCase) -> CaseResult {
    // a generated graph without any aggregate gets one: its last target becomes an aggregate
    // over what it depended on (nothing refers to the last target)
    let mut with_agg = case.clone();
    if !with_agg.graph.targets.iter().any(|t| t.kind == Kind::Aggregate) {
        if let Some(t) = with_agg.graph.targets.last_mut() {
            t.kind = Kind::Aggregate;
            let extra: Vec<usize> = t.outdeps.drain(..).collect();
            for d in extra {
                if !t.deps.contains(&d) {
                    t.deps.push(d);
                }
            }
        }
    }
    let case = &with_agg;
    let g = &case.graph;
    let mut res = CaseResult {
        sample: bb_summary(case),
        ..Default::default()
    };
    let aggs: Vec<usize> = (0..g.n()).filter(|&i| g.targets[i].kind == Kind::Aggregate).collect();
    let gi = match case.roots.iter().copied().find(|r| aggs.contains(r)).or_else(|| aggs.last().copied()) {
        Some(x) => x,
        None => {
            res.classes.push("no-aggregate".into());
            return res;
        }
    };
    let others: Vec<usize> = case.roots.iter().copied().filter(|&r| r != gi).collect();
    let mut a = case.clone();
    a.roots = vec![gi];
    a.roots.extend(others.iter().copied());
    a.rendezvous.clear();
    let mut b = a.clone();
    b.roots = g.edges(gi);
    b.roots.extend(others.iter().copied());
    if b.roots.is_empty() {
        res.classes.push("empty-aggregate-alone".into());
        return res;
    }
    let oa = run_bb_case(&a, &[], "c20a");
    let ob = run_bb_case(&b, &[], "c20b");
    if oa.timed_out || ob.timed_out {
        res.inconclusive = Some("still busy at wall budget".into());
        return res;
    }
    let nested = g.edges(gi).iter().any(|&d| g.targets[d].kind == Kind::Aggregate);
    let empty = g.edges(gi).is_empty();
    let has_svc = g.has_service_behind(gi);
    res.nontrivial = nested || empty || has_svc;
    res.classes = vec![
        if nested { "nested-aggregate" } else { "flat" }.to_string(),
        if empty { "empty-aggregate" } else { "non-empty" }.to_string(),
        if has_svc { "aggregate-over-service" } else { "builds-only" }.to_string(),
    ];
    res.fingerprint = format!("{:?}|{:?}", res.classes, g.classes(&a.roots));
    let va = observable(&a, &oa);
    let vb = observable(&b, &ob);
    let mut same = va["ran"] == vb["ran"] && va["kept_alive"] == vb["kept_alive"] && va["ok"] == vb["ok"];
    if oa.idle_alive && ob.idle_alive {
        same = same && va["services"] == vb["services"];
    }
    if !same {
        let msg = format!(
            "requesting aggregate {} gave {}, requesting its dependencies instead gave {}",
            g.ids(gi),
            va,
            vb
        );
        res.signature = Some("bb-c20:differs".into());
        res.replay = json!({"engine": "BB-c20", "case": serde_json::to_value(case).unwrap(), "summary": bb_summary(case), "message": msg,
            "A": {"requested": a.roots.iter().map(|&r| g.ids(r)).collect::<Vec<_>>(), "observed": va},
            "B": {"requested": b.roots.iter().map(|&r| g.ids(r)).collect::<Vec<_>>(), "observed": vb}});
        res.violation = Some(msg);
    }
    res
}

// ---------------------------------------------------------------------------
// C17: a slow up-to-date check of a hub with many dependents must not delay an unrelated chain

#[derive(Debug, Clone, Serialize, Deserialize)]
pub struct HubCase {
    /// number of dependents of the hub (34..=90: more messages than one inbox holds)
    pub dependents: usize,
}

pub fn hub_case() -> impl Strategy<Value = HubCase> {
    (34usize..=90).prop_map(|dependents| HubCase { dependents })
}

pub fn eval_hub(case: &HubCase) -> CaseResult {
    let sb = Sandbox::new("c17hub");
    let n = case.dependents;
    let mut targets = Map::new();
    targets.insert(
        "hub".into(),
        json!({
            "build": build_script("hub", ""),
            "input": [{"cmd_stdout": "touch \"$ZV_ROOT/h.checking\"; sleep 2; rm -f \"$ZV_ROOT/h.checking\"; echo v"}],
        }),
    );
    let mut all: Vec<String> = vec![];
    for i in 0..n {
        targets.insert(format!("d{}", i), json!({"dependencies": ["hub"], "build": build_script(&format!("d{}", i), "")}));
        all.push(format!("d{}", i));
    }
    targets.insert("u1".into(), json!({"build": build_script("u1", "sleep 0.5")}));
    targets.insert(
        "u2".into(),
        json!({
            "dependencies": ["u1"],
            "build": "if [ -e \"$ZV_ROOT/h.checking\" ]; then w=during-check; else w=after-check; fi\necho \"S u2 $$ $w\" >> \"$ZV_TRACE\"\necho \"F u2 $$\" >> \"$ZV_TRACE\"",
        }),
    );
    all.push("u2".into());
    targets.insert("all".into(), json!({ "dependencies": all }));
    write_project(&sb.path("proj"), &json!({ "targets": targets }));
    let mut res = CaseResult {
        nontrivial: true,
        fingerprint: format!("hub|{}", n / 8),
        classes: vec![format!("dependents-{}0s", n / 10)],
        sample: json!({"hub_dependents": n, "hub_input": "cmd_stdout taking 2 s", "unrelated_chain": "u1 (0.5 s) -> u2"}),
        ..Default::default()
    };
    let args = vec!["all".to_string()];
    let first = run_zinoma(&sb, &sb.path("proj"), &args, &[], Duration::from_secs(60), false);
    if !first.success() {
        res.inconclusive = Some(format!("first build failed: {:?}", first.status));
        return res;
    }
    sb.clear_trace();
    let _ = std::fs::remove_file(sb.path("h.checking"));
    let second = run_zinoma(&sb, &sb.path("proj"), &args, &[], Duration::from_secs(60), false);
    if second.timed_out {
        res.inconclusive = Some("still busy at wall budget".into());
        return res;
    }
    let trace = sb.trace();
    let u2 = trace.iter().find(|t| t.kind == 'S' && t.id == "u2");
    match u2 {
        Some(t) if t.extra.trim() == "after-check" => {
            let msg = format!(
                "u2 only depends on u1 (0.5 s), yet it started after the 2 s up-to-date check of the unrelated target hub ({} dependents) had ended",
                n
            );
            res.signature = Some("bb:c17:hub-check-blocks".into());
            res.replay = json!({"engine": "BB-c17hub", "case": serde_json::to_value(case).unwrap(), "message": msg,
                "trace_head": trace.iter().take(6).map(|t| format!("{} {} {}", t.kind, t.id, t.extra)).collect::<Vec<_>>()});
            res.violation = Some(msg);
        }
        Some(_) => {}
        None => {
            res.inconclusive = Some(format!("u2 did not run in the second invocation (exit {:?})", second.code()));
        }
    }
    res
}
