//! BB engine: the real binary (the repository's own `main()`), spawned on generated projects.
//! Run/skip is decided from a trace file written by the generated scripts, never from log text.

use serde_json::{json, Value};
use std::collections::{BTreeMap, BTreeSet};
use std::io::Read;
use std::os::unix::process::CommandExt;
use std::path::{Path, PathBuf};
use std::process::{Child, Command, ExitStatus, Stdio};
use std::sync::atomic::{AtomicU64, Ordering};
use std::time::{Duration, Instant};

static COUNTER: AtomicU64 = AtomicU64::new(0);
/// Address-space limit (MiB) applied to every spawned zinoma.
pub static AS_LIMIT_MB: AtomicU64 = AtomicU64::new(16 * 1024);

pub fn scratch_base() -> PathBuf {
    if let Ok(p) = std::env::var("ZV_SCRATCH") {
        return PathBuf::from(p);
    }
    let shm = Path::new("/dev/shm");
    if shm.is_dir() && std::fs::metadata(shm).map(|m| !m.permissions().readonly()).unwrap_or(false)
    {
        return shm.to_path_buf();
    }
    std::env::var("TMPDIR")
        .map(PathBuf::from)
        .unwrap_or_else(|_| PathBuf::from("/tmp"))
}

pub fn zinoma_bin() -> PathBuf {
    let exe = std::env::current_exe().expect("current_exe");
    exe.parent().unwrap().join("zinoma")
}

/// A scratch directory + a marker carried by every process of the case.
pub struct Sandbox {
    pub root: PathBuf,
    pub case_id: String,
}

impl Sandbox {
    pub fn new(tag: &str) -> Sandbox {
        let n = COUNTER.fetch_add(1, Ordering::Relaxed);
        let case_id = format!("zv{}x{}x{}", std::process::id(), n, tag);
        let root = scratch_base().join(&case_id);
        let _ = std::fs::remove_dir_all(&root);
        std::fs::create_dir_all(&root).expect("create sandbox");
        // canonical path (zinoma canonicalises project dirs)
        let root = std::fs::canonicalize(&root).unwrap_or(root);
        Sandbox { root, case_id }
    }
    pub fn path(&self, rel: &str) -> PathBuf {
        self.root.join(rel)
    }
    pub fn trace_path(&self) -> PathBuf {
        self.root.join("trace.log")
    }
    pub fn write(&self, rel: &str, content: &[u8]) {
        let p = self.path(rel);
        if let Some(d) = p.parent() {
            let _ = std::fs::create_dir_all(d);
        }
        std::fs::write(&p, content).unwrap_or_else(|e| panic!("write {}: {}", p.display(), e));
    }
    pub fn trace(&self) -> Vec<TraceLine> {
        parse_trace(&std::fs::read_to_string(self.trace_path()).unwrap_or_default())
    }
    pub fn clear_trace(&self) {
        let _ = std::fs::remove_file(self.trace_path());
    }
    /// Live (non-zombie) processes carrying this case's marker.
    pub fn marked_processes(&self) -> Vec<i32> {
        scan_marker(&self.case_id)
    }
    pub fn kill_marked(&self) {
        for _ in 0..5 {
            let ps = self.marked_processes();
            if ps.is_empty() {
                break;
            }
            for p in ps {
                unsafe {
                    libc::kill(p, libc::SIGKILL);
                }
            }
            std::thread::sleep(Duration::from_millis(20));
        }
    }
}

impl Drop for Sandbox {
    fn drop(&mut self) {
        self.kill_marked();
        let _ = std::fs::remove_dir_all(&self.root);
    }
}

#[derive(Debug, Clone, PartialEq, Eq)]
pub struct TraceLine {
    pub kind: char,
    pub id: String,
    pub pid: i32,
    pub extra: String,
}

pub fn parse_trace(s: &str) -> Vec<TraceLine> {
    s.lines()
        .filter_map(|l| {
            let mut it = l.splitn(4, ' ');
            let kind = it.next()?.chars().next()?;
            let id = it.next()?.to_string();
            let pid = it.next().and_then(|p| p.parse().ok()).unwrap_or(0);
            let extra = it.next().unwrap_or("").to_string();
            Some(TraceLine {
                kind,
                id,
                pid,
                extra,
            })
        })
        .collect()
}

pub fn started(trace: &[TraceLine], id: &str) -> usize {
    trace.iter().filter(|t| t.kind == 'S' && t.id == id).count()
}
pub fn finished(trace: &[TraceLine], id: &str) -> usize {
    trace.iter().filter(|t| t.kind == 'F' && t.id == id).count()
}
pub fn svc_started(trace: &[TraceLine], id: &str) -> usize {
    trace.iter().filter(|t| t.kind == 'V' && t.id == id).count()
}

/// `echo "S id $$" >> trace; body; echo "F id $$" >> trace`
pub fn build_script(id: &str, body: &str) -> String {
    format!(
        "echo \"S {id} $$\" >> \"$ZV_TRACE\"\n{body}\necho \"F {id} $$\" >> \"$ZV_TRACE\"",
        id = id,
        body = if body.is_empty() { ":" } else { body }
    )
}

/// Service in exec form: the spawned shell *is* the service.
pub fn service_script(id: &str) -> String {
    format!("echo \"V {id} $$\" >> \"$ZV_TRACE\"\nexec sleep 100000", id = id)
}

// ---------------------------------------------------------------------------
// /proc helpers

fn read_proc(pid: i32, what: &str) -> Option<Vec<u8>> {
    std::fs::read(format!("/proc/{}/{}", pid, what)).ok()
}

pub fn proc_state(pid: i32) -> Option<char> {
    let s = String::from_utf8_lossy(&read_proc(pid, "stat")?).to_string();
    let rest = &s[s.rfind(')')? + 1..];
    rest.trim().chars().next()
}

/// utime + stime (clock ticks) of the whole process.
pub fn proc_cpu_ticks(pid: i32) -> Option<u64> {
    let s = String::from_utf8_lossy(&read_proc(pid, "stat")?).to_string();
    let rest = &s[s.rfind(')')? + 1..];
    let f: Vec<&str> = rest.split_whitespace().collect();
    // after ")" : state(0) ppid(1) ... utime is field 14 overall => index 11 here, stime 12
    Some(f.get(11)?.parse::<u64>().ok()? + f.get(12)?.parse::<u64>().ok()?)
}

pub fn proc_ppid(pid: i32) -> Option<i32> {
    let s = String::from_utf8_lossy(&read_proc(pid, "stat")?).to_string();
    let rest = &s[s.rfind(')')? + 1..];
    rest.split_whitespace().nth(1)?.parse().ok()
}

pub fn proc_threads_all_sleeping(pid: i32) -> bool {
    let dir = match std::fs::read_dir(format!("/proc/{}/task", pid)) {
        Ok(d) => d,
        Err(_) => return false,
    };
    for e in dir.flatten() {
        if let Ok(s) = std::fs::read_to_string(e.path().join("stat")) {
            if let Some(p) = s.rfind(')') {
                let st = s[p + 1..].trim().chars().next().unwrap_or('?');
                if st != 'S' {
                    return false;
                }
            }
        }
    }
    true
}

pub fn all_pids() -> Vec<i32> {
    let mut v = Vec::new();
    if let Ok(d) = std::fs::read_dir("/proc") {
        for e in d.flatten() {
            if let Some(p) = e.file_name().to_str().and_then(|s| s.parse::<i32>().ok()) {
                v.push(p);
            }
        }
    }
    v
}

pub fn children_of(pid: i32) -> Vec<i32> {
    all_pids()
        .into_iter()
        .filter(|&p| proc_ppid(p) == Some(pid) && proc_state(p).is_some_and(|s| s != 'Z'))
        .collect()
}

pub fn scan_marker(case_id: &str) -> Vec<i32> {
    let needle = format!("ZV_CASE={}", case_id).into_bytes();
    let me = std::process::id() as i32;
    let mut out = Vec::new();
    for p in all_pids() {
        if p == me {
            continue;
        }
        if let Some(env) = read_proc(p, "environ") {
            if env
                .split(|&b| b == 0)
                .any(|kv| kv == needle.as_slice())
            {
                if proc_state(p).is_some_and(|s| s != 'Z' && s != 'X') {
                    out.push(p);
                }
            }
        }
    }
    out
}

pub fn pid_alive(pid: i32) -> bool {
    proc_state(pid).is_some_and(|s| s != 'Z' && s != 'X')
}

// ---------------------------------------------------------------------------
// Running the binary

pub struct ZProc {
    pub child: Child,
    pub pid: i32,
    pub started: Instant,
    out_path: PathBuf,
    err_path: PathBuf,
}

#[derive(Debug, Clone)]
pub struct ZOutcome {
    pub status: Option<ExitStatus>,
    pub stdout: String,
    pub stderr: String,
    /// Declared deadlocked by the quiescence rule (no child, all threads asleep, no CPU progress).
    pub hung: bool,
    /// Still making progress when the wall budget ran out (inconclusive).
    pub timed_out: bool,
    pub wall: Duration,
}

impl ZOutcome {
    pub fn code(&self) -> Option<i32> {
        self.status.and_then(|s| s.code())
    }
    pub fn success(&self) -> bool {
        self.status.is_some_and(|s| s.success())
    }
    pub fn panicked(&self) -> bool {
        self.code() == Some(101)
            || self.stderr.contains("panicked at")
            || self
                .status
                .is_some_and(|s| std::os::unix::process::ExitStatusExt::signal(&s) == Some(libc::SIGABRT))
    }
}

thread_local! {
    /// Number of async-std runtime threads (ASYNC_STD_THREAD_COUNT) for the zinoma processes this
    /// worker spawns; 0 = the runtime's default (one per core). Set from the generated case.
    pub static RUNTIME_THREADS: std::cell::Cell<u8> = const { std::cell::Cell::new(0) };
}

pub fn set_runtime_threads(n: u8) {
    RUNTIME_THREADS.with(|c| c.set(n));
}

pub fn spawn_zinoma(
    sb: &Sandbox,
    project_dir: &Path,
    args: &[String],
    extra_env: &[(String, String)],
) -> ZProc {
    spawn_zinoma_in(sb, None, project_dir, args, extra_env)
}

/// Same, with an explicit working directory (so that `-p` can be a relative path).
pub fn spawn_zinoma_in(
    sb: &Sandbox,
    cwd: Option<&Path>,
    project_dir: &Path,
    args: &[String],
    extra_env: &[(String, String)],
) -> ZProc {
    let n = COUNTER.fetch_add(1, Ordering::Relaxed);
    let out_path = sb.root.join(format!(".zv-out-{}", n));
    let err_path = sb.root.join(format!(".zv-err-{}", n));
    let out = std::fs::File::create(&out_path).expect("out");
    let err = std::fs::File::create(&err_path).expect("err");
    let mut cmd = Command::new(zinoma_bin());
    cmd.arg("-p").arg(project_dir);
    cmd.args(args);
    if let Some(d) = cwd {
        cmd.current_dir(d);
    }
    cmd.env("ZV_TRACE", sb.trace_path());
    cmd.env("ZV_CASE", &sb.case_id);
    cmd.env("ZV_ROOT", &sb.root);
    cmd.env("RUST_BACKTRACE", "0");
    cmd.env_remove("ZINOMA_VERIF_CRASH");
    cmd.env_remove("ASYNC_STD_THREAD_COUNT");
    let rt = RUNTIME_THREADS.with(|c| c.get());
    if rt > 0 {
        cmd.env("ASYNC_STD_THREAD_COUNT", rt.to_string());
    }
    for (k, v) in extra_env {
        cmd.env(k, v);
    }
    cmd.stdin(Stdio::null()).stdout(out).stderr(err);
    let as_limit = AS_LIMIT_MB.load(Ordering::Relaxed) << 20;
    unsafe {
        cmd.pre_exec(move || {
            // bound the address space: a corrupted state file must not take the box down
            let lim = libc::rlimit {
                rlim_cur: as_limit,
                rlim_max: as_limit,
            };
            libc::setrlimit(libc::RLIMIT_AS, &lim);
            let core = libc::rlimit {
                rlim_cur: 0,
                rlim_max: 0,
            };
            libc::setrlimit(libc::RLIMIT_CORE, &core);
            Ok(())
        });
    }
    let child = cmd.spawn().expect("spawn zinoma");
    let pid = child.id() as i32;
    ZProc {
        child,
        pid,
        started: Instant::now(),
        out_path,
        err_path,
    }
}

impl ZProc {
    pub fn signal(&self, sig: i32) {
        unsafe {
            libc::kill(self.pid, sig);
        }
    }
    pub fn try_exit(&mut self) -> Option<ExitStatus> {
        self.child.try_wait().ok().flatten()
    }
    pub fn stderr_so_far(&self) -> String {
        std::fs::read_to_string(&self.err_path).unwrap_or_default()
    }
    pub fn stdout_so_far(&self) -> String {
        std::fs::read_to_string(&self.out_path).unwrap_or_default()
    }
    /// No live child, every thread asleep, and no CPU progress across `samples` intervals.
    pub fn is_quiescent(&self, interval: Duration, samples: usize) -> bool {
        let mut last = match proc_cpu_ticks(self.pid) {
            Some(t) => t,
            None => return false,
        };
        for _ in 0..samples {
            std::thread::sleep(interval);
            if !children_of(self.pid).is_empty() {
                return false;
            }
            if !proc_threads_all_sleeping(self.pid) {
                return false;
            }
            match proc_cpu_ticks(self.pid) {
                Some(t) if t == last => {}
                Some(t) => {
                    last = t;
                    return false;
                }
                None => return false,
            }
        }
        true
    }
    /// zinoma and every descendant are asleep and none of them used any CPU over the samples:
    /// with scripts and commands that only do trivial work this is a deadlock *with* children
    /// (e.g. a command blocked on a pipe nobody drains).
    pub fn is_stuck_with_children(&self, interval: Duration, samples: usize) -> bool {
        fn descendants(pid: i32) -> Vec<i32> {
            let mut out = vec![];
            let mut stack = vec![pid];
            let all = all_pids();
            while let Some(p) = stack.pop() {
                for &c in &all {
                    if proc_ppid(c) == Some(p) && !out.contains(&c) {
                        out.push(c);
                        stack.push(c);
                    }
                }
            }
            out
        }
        let snapshot = |pid: i32| -> Option<Vec<(i32, u64)>> {
            let mut v = vec![(pid, proc_cpu_ticks(pid)?)];
            for d in descendants(pid) {
                match proc_state(d) {
                    Some('S') | Some('Z') => v.push((d, proc_cpu_ticks(d).unwrap_or(0))),
                    _ => return None,
                }
            }
            Some(v)
        };
        let mut last = match snapshot(self.pid) {
            Some(s) if s.len() > 1 => s,
            _ => return false,
        };
        for _ in 0..samples {
            std::thread::sleep(interval);
            if !proc_threads_all_sleeping(self.pid) {
                return false;
            }
            match snapshot(self.pid) {
                Some(s) if s == last => {}
                Some(s) => {
                    last = s;
                    return false;
                }
                None => return false,
            }
        }
        true
    }

    pub fn wait(self, budget: Duration, hang_detect: bool) -> ZOutcome {
        self.wait_ext(budget, hang_detect, false)
    }

    /// Wait for exit. `hang_detect`: declare a deadlock by quiescence (one-shot runs with
    /// terminating scripts only). `stuck_children`: also declare a deadlock when zinoma and all
    /// its (trivial) children sleep without any CPU progress. Budget exhaustion while still busy
    /// = timed_out.
    pub fn wait_ext(mut self, budget: Duration, hang_detect: bool, stuck_children: bool) -> ZOutcome {
        let deadline = self.started + budget;
        let mut hung = false;
        let mut timed_out = false;
        let mut status = None;
        let mut next_probe = Instant::now() + Duration::from_millis(1500);
        loop {
            if let Some(s) = self.try_exit() {
                status = Some(s);
                break;
            }
            let now = Instant::now();
            if hang_detect && now >= next_probe {
                if self.is_quiescent(Duration::from_millis(500), 3)
                    || (stuck_children && self.started.elapsed() > Duration::from_secs(4) && self.is_stuck_with_children(Duration::from_millis(700), 4))
                {
                    if let Some(s) = self.try_exit() {
                        status = Some(s);
                        break;
                    }
                    hung = true;
                    break;
                }
                next_probe = Instant::now() + Duration::from_millis(1000);
            }
            if now >= deadline {
                timed_out = true;
                break;
            }
            std::thread::sleep(Duration::from_millis(4));
        }
        if status.is_none() {
            let _ = self.child.kill();
            let _ = self.child.wait();
        }
        let wall = self.started.elapsed();
        let stdout = std::fs::read_to_string(&self.out_path).unwrap_or_default();
        let stderr = std::fs::read_to_string(&self.err_path).unwrap_or_default();
        let _ = std::fs::remove_file(&self.out_path);
        let _ = std::fs::remove_file(&self.err_path);
        ZOutcome {
            status,
            stdout,
            stderr,
            hung,
            timed_out,
            wall,
        }
    }
}

pub fn run_zinoma(
    sb: &Sandbox,
    project_dir: &Path,
    args: &[String],
    extra_env: &[(String, String)],
    budget: Duration,
    hang_detect: bool,
) -> ZOutcome {
    spawn_zinoma(sb, project_dir, args, extra_env).wait(budget, hang_detect)
}

pub fn sv(args: &[&str]) -> Vec<String> {
    args.iter().map(|s| s.to_string()).collect()
}

// ---------------------------------------------------------------------------
// Tree snapshots (name, type, link target, content)

#[derive(Debug, Clone, PartialEq, Eq)]
pub enum Entry {
    Dir,
    File(Vec<u8>),
    Link(PathBuf),
    Other,
}

pub fn snapshot(root: &Path) -> BTreeMap<PathBuf, Entry> {
    fn walk(root: &Path, dir: &Path, out: &mut BTreeMap<PathBuf, Entry>) {
        let rd = match std::fs::read_dir(dir) {
            Ok(r) => r,
            Err(_) => return,
        };
        for e in rd.flatten() {
            let p = e.path();
            let rel = p.strip_prefix(root).unwrap().to_path_buf();
            let md = match std::fs::symlink_metadata(&p) {
                Ok(m) => m,
                Err(_) => continue,
            };
            let ft = md.file_type();
            if ft.is_symlink() {
                out.insert(rel, Entry::Link(std::fs::read_link(&p).unwrap_or_default()));
            } else if ft.is_dir() {
                out.insert(rel, Entry::Dir);
                walk(root, &p, out);
            } else if ft.is_file() {
                out.insert(rel, Entry::File(std::fs::read(&p).unwrap_or_default()));
            } else {
                out.insert(rel, Entry::Other);
            }
        }
    }
    let mut out = BTreeMap::new();
    walk(root, root, &mut out);
    out
}

pub fn set_mtime(path: &Path, secs: i64, nanos: i64) {
    use std::os::unix::ffi::OsStrExt;
    let c = std::ffi::CString::new(path.as_os_str().as_bytes()).unwrap();
    let times = [
        libc::timespec {
            tv_sec: secs,
            tv_nsec: nanos,
        },
        libc::timespec {
            tv_sec: secs,
            tv_nsec: nanos,
        },
    ];
    unsafe {
        libc::utimensat(libc::AT_FDCWD, c.as_ptr(), times.as_ptr(), 0);
    }
}

/// JSON is YAML: project files are emitted as JSON documents.
pub fn write_project(dir: &Path, doc: &Value) {
    let _ = std::fs::create_dir_all(dir);
    std::fs::write(
        dir.join("zinoma.yml"),
        serde_json::to_string_pretty(doc).unwrap(),
    )
    .expect("write zinoma.yml");
}
