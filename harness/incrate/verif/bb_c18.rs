//! C18: recorded state is per target and independent of how the target was reached.
//! Model-based black-box histories: invocations with different entry projects, spellings and
//! flags over one tree, compared with a per-target "recorded snapshot" model.

use super::bb::*;
use super::inc_incr::{snapshot_resources, unchanged, MRes, Snapshot};
use super::prop::*;
use proptest::prelude::*;
use serde::{Deserialize, Serialize};
use serde_json::{json, Value};
use std::collections::{BTreeMap, BTreeSet};
use std::path::PathBuf;
use std::time::Duration;

#[derive(Debug, Clone, Serialize, Deserialize)]
pub enum HOp {
    /// entry: 0 = root project, 1 = sub project; route selects the spelling / the way the
    /// observed targets are reached; clean: index of a target to pass to --clean (or none).
    Invoke {
        entry: u8,
        route: u8,
        clean: Option<u8>,
        /// How the project directory is given: 0 absolute; 1 relative to the sandbox root;
        /// 2 "." from inside the project; 3 relative from a sibling directory; 4 absolute through
        /// `..`; 5 absolute through a symlinked directory.
        #[serde(default)]
        how: u8,
    },
    Edit { input: u8, kind: u8 },
    ToggleFail,
    /// The record of one target is damaged (truncated / overwritten) behind zinoma's back.
    Corrupt(u8),
}

#[derive(Debug, Clone, Serialize, Deserialize)]
pub struct C18Case {
    pub root_named: bool,
    pub ops: Vec<HOp>,
    /// The root imports `sub` through a path that contains a symbolic link.
    #[serde(default)]
    pub import_via_symlink: bool,
}

pub fn c18_case() -> impl Strategy<Value = C18Case> {
    let op = prop_oneof![
        5 => (0u8..2, 0u8..13, prop::option::weighted(0.25, 0u8..7), 0u8..6).prop_map(|(entry, route, clean, how)| HOp::Invoke { entry, route, clean, how }),
        3 => (0u8..6, 0u8..3).prop_map(|(input, kind)| HOp::Edit { input, kind }),
        1 => Just(HOp::ToggleFail),
        1 => (0u8..7).prop_map(HOp::Corrupt),
    ];
    (any::<bool>(), prop::collection::vec(op, 3..=9), any::<bool>()).prop_map(|(root_named, ops, import_via_symlink)| C18Case {
        root_named,
        ops,
        import_via_symlink,
    })
}

/// Targets: 0 = root a, 1 = sub::b, 2 = root c (consumes sub::b.output), 3 = sub::f (fails on
/// demand), 4 = sub::d (depends on b), 5 = sub::b-1 and 6 = sub::b_1 (names that differ by one
/// punctuation character only).
const NT: usize = 7;

struct Layout {
    root_named: bool,
    import_via_symlink: bool,
}

impl Layout {
    fn id(&self, t: usize) -> String {
        let r = if self.root_named { "root::" } else { "" };
        match t {
            0 => format!("{}a", r),
            1 => "sub::b".into(),
            2 => format!("{}c", r),
            3 => "sub::f".into(),
            4 => "sub::d".into(),
            5 => "sub::b-1".into(),
            _ => "sub::b_1".into(),
        }
    }
    fn deps(&self, t: usize) -> Vec<usize> {
        match t {
            2 => vec![1],
            4 => vec![1],
            _ => vec![],
        }
    }
    fn closure(&self, roots: &[usize]) -> BTreeSet<usize> {
        let mut s = BTreeSet::new();
        let mut st = roots.to_vec();
        while let Some(t) = st.pop() {
            if s.insert(t) {
                st.extend(self.deps(t));
            }
        }
        s
    }
}

fn script(id: &str, body: &str) -> String {
    build_script(id, body)
}

fn setup(sb: &Sandbox, l: &Layout) {
    sb.write("proj/asrc/a.txt", b"a-1\n");
    // `a` also tracks every *.cfg / *.checksums file of the whole project tree: only this one
    // exists outside the work directories (which hold the other targets' records, at any depth)
    sb.write("proj/settings.cfg", b"never edited\n");
    sb.write("proj/csrc/c.txt", b"c-1\n");
    sb.write("proj/sub/bsrc/b.txt", b"b-1\n");
    sb.write("proj/sub/dsrc/d.txt", b"d-1\n");
    sb.write("proj/sub/fsrc/f.txt", b"f-1\n");
    sb.write("proj/sub/xsrc/x.txt", b"x-1\n");
    sb.write("proj/sub/ysrc/y.txt", b"y-1\n");
    let mut root = serde_json::Map::new();
    if l.root_named {
        root.insert("name".into(), json!("root"));
    }
    if l.import_via_symlink {
        let _ = std::fs::create_dir_all(sb.path("proj/vendor"));
        let _ = std::os::unix::fs::symlink("../sub", sb.path("proj/vendor/sub"));
        root.insert("imports".into(), json!({"sub": "vendor/sub"}));
    } else {
        root.insert("imports".into(), json!({"sub": "sub"}));
    }
    root.insert(
        "targets".into(),
        json!({
            "a": {"build": script(&l.id(0), "mkdir -p aout && cp asrc/a.txt aout/a.txt"), "input": [{"paths": ["asrc"]}, {"paths": ["."], "extensions": ["cfg", "checksums"]}], "output": [{"paths": ["aout"]}]},
            "c": {"build": script(&l.id(2), "mkdir -p cout && cat csrc/c.txt sub/bout/b.txt > cout/c.txt"), "input": [{"paths": ["csrc"]}, "sub::b.output"], "output": [{"paths": ["cout"]}]},
            "all": {"dependencies": ["a", "sub::b"]},
        }),
    );
    write_project(&sb.path("proj"), &Value::Object(root));
    write_project(
        &sb.path("proj/sub"),
        &json!({
            "name": "sub",
            "targets": {
                "b": {"build": script("sub::b", "mkdir -p bout && cp bsrc/b.txt bout/b.txt"), "input": [{"paths": ["bsrc"]}, {"cmd_stdout": "cat bsrc/b.txt"}], "output": [{"paths": ["bout"]}]},
                "d": {"dependencies": ["b"], "build": script("sub::d", "mkdir -p dout && cp dsrc/d.txt dout/d.txt"), "input": [{"paths": ["dsrc"]}], "output": [{"paths": ["dout"]}]},
                "f": {"build": script("sub::f", "if [ -e \"$ZV_ROOT/fail\" ]; then exit 3; fi"), "input": [{"paths": ["fsrc"]}]},
                "b-1": {"build": script("sub::b-1", "mkdir -p xout && cp xsrc/x.txt xout/x.txt"), "input": [{"paths": ["xsrc"]}], "output": [{"paths": ["xout"]}]},
                "b_1": {"build": script("sub::b_1", "mkdir -p yout && cp ysrc/y.txt yout/y.txt"), "input": [{"paths": ["ysrc"]}], "output": [{"paths": ["yout"]}]},
            }
        }),
    );
}

fn resources(sb: &Sandbox, t: usize) -> Vec<MRes> {
    let root = std::fs::canonicalize(sb.path("proj")).unwrap();
    let sub = root.join("sub");
    match t {
        0 => vec![MRes::Files(vec![root.join("asrc")], None), MRes::Files(vec![root.join("aout")], None)],
        1 => vec![
            MRes::Files(vec![sub.join("bsrc")], None),
            MRes::Cmd(sub.clone(), "cat bsrc/b.txt".into()),
            MRes::Files(vec![sub.join("bout")], None),
        ],
        2 => vec![
            MRes::Files(vec![root.join("csrc")], None),
            MRes::Files(vec![sub.join("bout")], None),
            MRes::Files(vec![root.join("cout")], None),
        ],
        3 => vec![MRes::Files(vec![sub.join("fsrc")], None)],
        4 => vec![MRes::Files(vec![sub.join("dsrc")], None), MRes::Files(vec![sub.join("dout")], None)],
        5 => vec![MRes::Files(vec![sub.join("xsrc")], None), MRes::Files(vec![sub.join("xout")], None)],
        _ => vec![MRes::Files(vec![sub.join("ysrc")], None), MRes::Files(vec![sub.join("yout")], None)],
    }
}

#[derive(Clone)]
enum Rec {
    None,
    Known(Snapshot),
    Unknown,
}

/// (entry dir, argument list, observed targets requested) for a route.
fn route(l: &Layout, entry: u8, route: u8) -> (String, Vec<String>, Vec<usize>, &'static str) {
    let r = if l.root_named { "root::" } else { "" };
    if entry % 2 == 0 {
        match route % 13 {
            0 => ("proj".into(), vec!["a".into()], vec![0], "root:bare-a"),
            1 => ("proj".into(), vec!["sub::b".into()], vec![1], "root:qualified-b"),
            2 => ("proj".into(), vec!["all".into()], vec![0, 1], "root:aggregate"),
            3 => ("proj".into(), vec!["c".into()], vec![2], "root:b-as-dependency-of-c"),
            4 => ("proj".into(), vec![format!("{}a", r), "sub::d".into()], vec![0, 4], "root:qualified-a+d"),
            5 => ("proj".into(), vec!["sub::f".into()], vec![3], "root:f"),
            6 => ("proj".into(), vec!["sub::f".into(), "sub::b".into()], vec![3, 1], "root:f+b"),
            7 => ("proj".into(), vec!["sub::b-1".into()], vec![5], "root:b-1"),
            8 => ("proj".into(), vec!["sub::b_1".into(), "a".into()], vec![6, 0], "root:b_1+a"),
            9 => ("proj".into(), vec!["sub::b".into(), "c".into()], vec![1, 2], "root:producer-before-consumer"),
            10 => ("proj".into(), vec!["all".into(), "c".into()], vec![0, 1, 2], "root:aggregate-then-consumer"),
            _ => ("proj".into(), vec!["c".into(), "a".into(), "sub::b".into()], vec![2, 0, 1], "root:c+a+b"),
        }
    } else {
        match route % 13 {
            0 | 1 => ("proj/sub".into(), vec!["b".into()], vec![1], "sub:bare-b"),
            2 => ("proj/sub".into(), vec!["sub::b".into()], vec![1], "sub:qualified-b"),
            3 | 4 => ("proj/sub".into(), vec!["d".into()], vec![4], "sub:b-as-dependency-of-d"),
            5 => ("proj/sub".into(), vec!["f".into()], vec![3], "sub:f"),
            6 => ("proj/sub".into(), vec!["f".into(), "b".into()], vec![3, 1], "sub:f+b"),
            7 => ("proj/sub".into(), vec!["b-1".into()], vec![5], "sub:b-1"),
            8 => ("proj/sub".into(), vec!["b_1".into()], vec![6], "sub:b_1"),
            9 => ("proj/sub".into(), vec!["b_1".into(), "sub::b-1".into()], vec![6, 5], "sub:b_1+b-1"),
            _ => ("proj/sub".into(), vec!["b".into(), "sub::b".into(), "d".into()], vec![1, 4], "sub:both-spellings+d"),
        }
    }
}

pub fn eval_c18(case: &C18Case) -> CaseResult {
    let l = Layout { root_named: case.root_named, import_via_symlink: case.import_via_symlink };
    let sb = Sandbox::new("c18");
    setup(&sb, &l);
    let mut rec: Vec<Rec> = vec![Rec::None; NT];
    let mut failing = false;
    let mut history: Vec<String> = vec![];
    let mut routes_of: BTreeMap<usize, BTreeSet<&'static str>> = BTreeMap::new();
    let mut disturbance_between = false;
    let mut saw_disturbance = false;
    let mut counter = 1u32;
    let mut res = CaseResult::default();
    let mut violation: Option<(String, String)> = None;
    for op in &case.ops {
        match op {
            HOp::ToggleFail => {
                failing = !failing;
                if failing {
                    sb.write("fail", b"1");
                } else {
                    let _ = std::fs::remove_file(sb.path("fail"));
                }
                history.push(format!("f {}", if failing { "now fails" } else { "now succeeds" }));
            }
            HOp::Corrupt(t) => {
                let t = *t as usize % NT;
                let dir = if t == 0 || t == 2 { "proj" } else { "proj/sub" };
                let p = sb.path(&format!("{}/.zinoma/{}.checksums", dir, l.id(t)));
                if let Ok(bytes) = std::fs::read(&p) {
                    let cut = bytes.len() / 2;
                    let _ = std::fs::write(&p, &bytes[..cut]);
                    // a damaged record is discarded: that target (only) has to run again
                    rec[t] = Rec::None;
                    saw_disturbance = true;
                    history.push(format!("record of {} truncated to {} bytes", l.id(t), cut));
                }
            }
            HOp::Edit { input, kind } => {
                counter += 1;
                let (rel, tag) = match input % 6 {
                    0 => ("proj/asrc/a.txt", "a"),
                    1 => ("proj/sub/bsrc/b.txt", "b"),
                    2 => ("proj/csrc/c.txt", "c"),
                    3 => ("proj/sub/dsrc/d.txt", "d"),
                    4 => ("proj/sub/xsrc/x.txt", "x"),
                    _ => ("proj/sub/ysrc/y.txt", "y"),
                };
                match kind % 3 {
                    0 => {
                        sb.write(rel, format!("{}-{}\n", tag, counter).as_bytes());
                        history.push(format!("edit {}", rel));
                    }
                    1 => {
                        set_mtime(&sb.path(rel), 1_800_000_000 + counter as i64, 0);
                        history.push(format!("touch {}", rel));
                    }
                    _ => {
                        sb.write(&format!("{}.unrelated", rel.trim_end_matches(".txt")), b"x");
                        // a new file in the input directory IS a change of the denoted set
                        history.push(format!("new file next to {}", rel));
                    }
                }
            }
            HOp::Invoke { entry, route: r, clean, how } => {
                let (dir, mut args, requested, label) = route(&l, *entry, *r);
                let mut cleaned: BTreeSet<usize> = BTreeSet::new();
                let mut all_roots = requested.clone();
                if let Some(c) = clean {
                    // --clean applies to every requested target: request one more target U and
                    // clean; to keep "other targets" untouched the observed ones are NOT requested
                    let u = *c as usize % NT;
                    let name = if *entry % 2 == 0 {
                        match u {
                            0 => "a".to_string(),
                            2 => "c".to_string(),
                            1 => "sub::b".to_string(),
                            3 => "sub::f".to_string(),
                            4 => "sub::d".to_string(),
                            5 => "sub::b-1".to_string(),
                            _ => "sub::b_1".to_string(),
                        }
                    } else {
                        match u {
                            1 => "b".to_string(),
                            3 => "f".to_string(),
                            4 => "d".to_string(),
                            5 => "b-1".to_string(),
                            6 => "b_1".to_string(),
                            _ => "b".to_string(),
                        }
                    };
                    let u = if *entry % 2 == 1 && (u == 0 || u == 2) { 1 } else { u };
                    args = vec!["--clean".to_string(), name];
                    all_roots = vec![u];
                    cleaned = l.closure(&[u]);
                }
                let clo = l.closure(&all_roots);
                // prediction
                let mut predicted: BTreeMap<usize, Option<bool>> = BTreeMap::new(); // Some(true) = runs
                for &t in &clo {
                    let p = if cleaned.contains(&t) {
                        Some(true)
                    } else {
                        match &rec[t] {
                            Rec::None => Some(true),
                            Rec::Unknown => None,
                            Rec::Known(s) => Some(!unchanged(s, &snapshot_resources(&resources(&sb, t)))),
                        }
                    };
                    predicted.insert(t, p);
                }
                // dependents re-run when a dependency's outputs will change: handled by replaying
                // in dependency order (b before c / d): if b is predicted to run and its input
                // content changed, c's snapshot will differ after b ran. Evaluate lazily below.
                sb.clear_trace();
                let (cwd, parg): (Option<PathBuf>, PathBuf) = match how % 6 {
                    0 => (None, sb.path(&dir)),
                    1 => (Some(sb.root.clone()), PathBuf::from(&dir)),
                    2 => (Some(sb.path(&dir)), PathBuf::from(".")),
                    // absolute but not canonical: through `..` and through a symlinked directory
                    4 => (None, sb.path(&dir).join("..").join(std::path::Path::new(&dir).file_name().unwrap())),
                    5 => {
                        let link = sb.path("plink");
                        if std::fs::symlink_metadata(&link).is_err() {
                            let _ = std::os::unix::fs::symlink(sb.path("proj"), &link);
                        }
                        (None, if dir == "proj" { link } else { link.join("sub") })
                    }
                    _ => (
                        Some(sb.path("proj/asrc")),
                        PathBuf::from(if dir == "proj" { "..".to_string() } else { "../sub".to_string() }),
                    ),
                };
                let out = spawn_zinoma_in(&sb, cwd.as_deref(), &parg, &args, &[]).wait(Duration::from_secs(60), false);
                let trace = sb.trace();
                if out.timed_out {
                    res.inconclusive = Some("invocation still busy at budget".into());
                    break;
                }
                // f only fails when it actually runs (an up-to-date f is skipped)
                let f_runs = if failing && clo.contains(&3) { predicted[&3] } else { Some(false) };
                let expect_fail = match f_runs {
                    Some(b) => b,
                    None => !out.success(),
                };
                history.push(format!(
                    "zinoma -p {} {}  [{}] => exit {:?}, ran {:?}",
                    format!("{} (cwd {})", parg.display(), cwd.as_ref().map(|c| c.strip_prefix(&sb.root).unwrap_or(c).display().to_string()).unwrap_or_else(|| "-".into())),
                    args.join(" "),
                    label,
                    out.code(),
                    trace.iter().filter(|t| t.kind == 'S').map(|t| t.id.clone()).collect::<Vec<_>>()
                ));
                if out.success() == expect_fail {
                    if expect_fail {
                        violation = Some(("exit".into(), format!("{}: sub::f fails but zinoma exited 0", history.last().unwrap())));
                    } else {
                        violation = Some(("exit".into(), format!("{}: unexpected failure: {}", history.last().unwrap(), out.stderr.lines().last().unwrap_or(""))));
                    }
                    break;
                }
                // compare, in dependency order
                for &t in &[1usize, 0, 3, 2, 4, 5, 6] {
                    if !clo.contains(&t) {
                        // nothing outside the closure may run
                        if started(&trace, &l.id(t)) > 0 {
                            violation = Some(("ran-outside".into(), format!("{}: {} ran although it was not needed", history.last().unwrap(), l.id(t))));
                        }
                        continue;
                    }
                    let ran = started(&trace, &l.id(t)) > 0;
                    let mut pred = predicted[&t];
                    // a consumer of b's outputs: if b ran and changed its outputs the consumer's
                    // prediction is decided now (b's script has completed)
                    if t == 2 && pred == Some(false) {
                        if let Rec::Known(s) = &rec[2] {
                            if !unchanged(s, &snapshot_resources(&resources(&sb, 2))) {
                                pred = Some(true);
                            }
                        }
                    }
                    // a dependency failed or the invocation failed before reaching it
                    let blocked = expect_fail;
                    match pred {
                        Some(true) if !ran && !blocked => {
                            violation = Some((
                                "wrong-skip".into(),
                                format!(
                                    "{}: {} was skipped although its own resources changed since its last successful run (or it has no record / was cleaned)",
                                    history.last().unwrap(),
                                    l.id(t)
                                ),
                            ));
                        }
                        Some(false) if ran => {
                            violation = Some((
                                "needless-run".into(),
                                format!(
                                    "{}: {} was rebuilt although nothing it declares changed since its last successful run - the decision depended on the route, on another target or on the entry project",
                                    history.last().unwrap(),
                                    l.id(t)
                                ),
                            ));
                        }
                        _ => {}
                    }
                    if violation.is_some() {
                        break;
                    }
                    // model update
                    if out.success() {
                        if ran {
                            rec[t] = Rec::Known(snapshot_resources(&resources(&sb, t)));
                        }
                    } else if ran || pred != Some(false) {
                        // the invocation was shut down by a failure: a target that ran (or may
                        // have been started) may or may not have been recorded
                        rec[t] = if t == 3 { Rec::None } else { Rec::Unknown };
                    }
                    routes_of.entry(t).or_default().insert(label);
                }
                if violation.is_some() {
                    break;
                }
                if clean.is_some() || expect_fail {
                    saw_disturbance = true;
                }
                if saw_disturbance && routes_of.values().any(|s| s.len() >= 2) {
                    disturbance_between = true;
                }
            }
        }
    }
    let multi_route = routes_of.values().filter(|s| s.len() >= 2).count();
    res.nontrivial = multi_route >= 1 && disturbance_between;
    let route_classes: BTreeSet<&str> = routes_of.values().flatten().copied().collect();
    res.fingerprint = format!("{:?}|{}|{}", route_classes, case.root_named, disturbance_between);
    res.classes = route_classes.iter().map(|s| s.to_string()).collect();
    if saw_disturbance {
        res.classes.push("failure-or-clean-in-history".into());
    }
    res.sample = json!({"root_named": case.root_named, "history": history});
    if let Some((sig, msg)) = violation {
        res.signature = Some(format!("bb-c18:{}", sig));
        res.replay = json!({"engine": "BB-c18", "case": serde_json::to_value(case).unwrap(), "message": msg, "history": history});
        res.violation = Some(msg);
    }
    res
}

pub fn replay_c18(v: &Value) -> Result<CaseResult, String> {
    let c: C18Case = serde_json::from_value(v["case"].clone()).map_err(|e| format!("bad C18 case: {}", e))?;
    Ok(eval_c18(&c))
}
