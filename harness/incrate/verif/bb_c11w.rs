//! C11 / C06 (black-box, watch mode): services are restarted after a relevant change, the old
//! instance is stopped before the new one starts, never two instances at once.

use super::bb::*;
use super::prop::*;
use proptest::prelude::*;
use serde::{Deserialize, Serialize};
use serde_json::{json, Value};
use std::collections::BTreeSet;
use std::time::{Duration, Instant};

#[derive(Debug, Clone, Serialize, Deserialize)]
pub struct C11wCase {
    /// 0 = service alone; 1 = service depends on a build; 2 = service consumes the build's output;
    /// 3 = service requested through an aggregate together with the build
    pub layout: u8,
    /// edits: 0 = the service's own input, 1 = the build's input, 2 = an unrelated file
    pub edits: Vec<u8>,
    /// async-std runtime threads of the watching zinoma (0 = default).
    #[serde(default)]
    pub runtime_threads: u8,
}

pub fn c11w_case() -> impl Strategy<Value = C11wCase> {
    (0u8..4, prop::collection::vec(0u8..3, 1..=4), prop::sample::select(vec![0u8, 0, 1, 2, 4])).prop_map(|(layout, edits, runtime_threads)| C11wCase { layout, edits, runtime_threads })
}

fn service_script() -> String {
    // logs the content it was started with; the shell is replaced by the long-running process
    "echo \"V s $$ $(cat in_s/x.txt)\" >> \"$ZV_TRACE\"\nexec sleep 100000".to_string()
}

fn wait_idle(z: &mut ZProc, sb: &Sandbox, budget: Duration) -> Result<(), String> {
    let deadline = Instant::now() + budget;
    let mut stable = 0;
    let mut last = (usize::MAX, None);
    while Instant::now() < deadline {
        if let Some(s) = z.try_exit() {
            return Err(format!("zinoma exited: {:?}", s));
        }
        let svc: BTreeSet<i32> = sb.trace().iter().filter(|t| t.kind == 'V').map(|t| t.pid).collect();
        let kids = children_of(z.pid);
        let idle = kids.iter().all(|k| svc.contains(k)) && proc_threads_all_sleeping(z.pid);
        let cur = (sb.trace().len(), proc_cpu_ticks(z.pid));
        if idle && cur == last {
            stable += 1;
            if stable >= 3 {
                return Ok(());
            }
        } else {
            stable = 0;
        }
        last = cur;
        std::thread::sleep(Duration::from_millis(120));
    }
    Err("still busy".into())
}

pub fn eval_c11w(case: &C11wCase) -> CaseResult {
    set_runtime_threads(case.runtime_threads);
    let sb = Sandbox::new("c11w");
    sb.write("proj/in_s/x.txt", b"s0");
    sb.write("proj/in_b/x.txt", b"b0");
    sb.write("proj/other/x.txt", b"o0");
    let b = json!({"build": build_script("b", "mkdir -p out_b && cp in_b/x.txt out_b/y.txt"), "input": [{"paths": ["in_b"]}], "output": [{"paths": ["out_b"]}]});
    let (s, roots): (Value, Vec<&str>) = match case.layout % 4 {
        0 => (json!({"service": service_script(), "input": [{"paths": ["in_s"]}]}), vec!["s"]),
        1 => (json!({"dependencies": ["b"], "service": service_script(), "input": [{"paths": ["in_s"]}]}), vec!["s"]),
        2 => (json!({"service": service_script(), "input": [{"paths": ["in_s"]}, "b.output"]}), vec!["s"]),
        _ => (json!({"service": service_script(), "input": [{"paths": ["in_s"]}]}), vec!["all"]),
    };
    write_project(
        &sb.path("proj"),
        &json!({"targets": {"b": b, "s": s, "all": {"dependencies": ["s", "b"]}}}),
    );
    let mut args = vec!["--watch".to_string()];
    args.extend(roots.iter().map(|s| s.to_string()));
    let mut z = spawn_zinoma(&sb, &sb.path("proj"), &args, &[]);
    let mut res = CaseResult::default();
    let mut history = vec![format!("zinoma {}", args.join(" "))];
    let mut failure: Option<(String, String)> = None;
    let mut expected_restarts = 0usize;
    let mut classes: BTreeSet<String> = BTreeSet::new();
    classes.insert(format!("layout-{}", case.layout % 4));
    let service_pids = |sb: &Sandbox| -> Vec<i32> { sb.trace().iter().filter(|t| t.kind == 'V').map(|t| t.pid).collect() };
    let check_instances = |sb: &Sandbox, z: &ZProc, when: &str| -> Option<(String, String)> {
        let pids = service_pids(sb);
        let alive: Vec<i32> = pids.iter().copied().filter(|p| pid_alive(*p) && proc_ppid(*p) == Some(z.pid)).collect();
        if alive.len() > 1 {
            return Some(("two-instances".into(), format!("{}: {} instances of the service are alive at once (pids {:?})", when, alive.len(), alive)));
        }
        if alive.is_empty() {
            return Some(("no-instance".into(), format!("{}: zinoma is idle but no instance of the requested service is running", when)));
        }
        if Some(&alive[0]) != pids.last() {
            return Some(("old-instance".into(), format!("{}: the running instance (pid {}) is not the one started last (pid {:?})", when, alive[0], pids.last())));
        }
        None
    };
    let mut s_content = "s0".to_string();
    match wait_idle(&mut z, &sb, Duration::from_secs(30)) {
        Ok(()) => failure = check_instances(&sb, &z, "after start-up"),
        Err(e) if e.starts_with("zinoma exited") => failure = Some(("exit".into(), e)),
        Err(_) => res.inconclusive = Some("still busy at start-up".into()),
    }
    let mut counter = 0;
    if failure.is_none() && res.inconclusive.is_none() {
        for e in &case.edits {
            counter += 1;
            let before = service_pids(&sb).len();
            let (rel, tag, restarts) = match (e % 3, case.layout % 4) {
                (0, _) => ("proj/in_s/x.txt", "s", true),
                // the build's input: the service is affected when it depends on the build
                (1, 1) | (1, 2) => ("proj/in_b/x.txt", "b", true),
                (1, _) => ("proj/in_b/x.txt", "b", false),
                _ => ("proj/other/x.txt", "o", false),
            };
            let v = format!("{}{}", tag, counter);
            sb.write("staging/x.tmp", v.as_bytes());
            let _ = std::fs::rename(sb.path("staging/x.tmp"), sb.path(rel));
            if tag == "s" {
                s_content = v.clone();
            }
            history.push(format!("change {}", rel));
            classes.insert(format!("edit-{}", tag));
            match wait_idle(&mut z, &sb, Duration::from_secs(20)) {
                Ok(()) => {}
                Err(e) if e.starts_with("zinoma exited") => {
                    failure = Some(("exit".into(), e));
                    break;
                }
                Err(_) => {
                    res.inconclusive = Some("still busy".into());
                    break;
                }
            }
            let after = service_pids(&sb).len();
            if restarts {
                expected_restarts += 1;
                if after == before {
                    failure = Some(("not-restarted".into(), format!("after a change of {} the service was not restarted", rel)));
                    break;
                }
                // the new instance saw the current content of its own input
                let last = sb.trace().iter().filter(|t| t.kind == 'V').last().map(|t| t.extra.clone()).unwrap_or_default();
                if last.trim() != s_content {
                    failure = Some(("stale-restart".into(), format!("the service restarted with input {:?}, current content is {:?}", last, s_content)));
                    break;
                }
            } else if after != before && tag == "o" {
                failure = Some(("spurious-restart".into(), format!("a change of {} (declared by nothing) restarted the service", rel)));
                break;
            }
            if let Some(f) = check_instances(&sb, &z, &format!("after the change of {}", rel)) {
                failure = Some(f);
                break;
            }
        }
    }
    z.signal(libc::SIGTERM);
    let out = z.wait(Duration::from_secs(10), false);
    std::thread::sleep(Duration::from_millis(150));
    let leaked = sb.marked_processes();
    if failure.is_none() && res.inconclusive.is_none() && !leaked.is_empty() {
        failure = Some(("leak".into(), format!("service processes still alive after zinoma exited: {:?}", leaked)));
    }
    res.nontrivial = expected_restarts >= 1;
    res.fingerprint = format!("{:?}|r{}", classes, expected_restarts.min(3));
    res.classes = classes.into_iter().collect();
    res.sample = json!({"layout": case.layout % 4, "history": history, "service_starts": service_pids(&sb).len()});
    if let Some((sig, msg)) = failure {
        res.signature = Some(format!("bb-c11w:{}", sig));
        res.replay = json!({"engine": "BB-c11w", "case": serde_json::to_value(case).unwrap(), "message": msg, "history": history,
            "trace": sb.trace().iter().map(|t| format!("{} {} {} {}", t.kind, t.id, t.pid, t.extra)).collect::<Vec<_>>(),
            "stderr_tail": out.stderr.lines().rev().take(8).collect::<Vec<_>>()});
        res.violation = Some(msg);
    }
    res
}

pub fn replay_c11w(v: &Value) -> Result<CaseResult, String> {
    let c: C11wCase = serde_json::from_value(v["case"].clone()).map_err(|e| format!("bad case: {}", e))?;
    Ok(eval_c11w(&c))
}
