//! C20 (black-box, wide): an aggregate over very many members (more acknowledgements than one
//! inbox holds) against requesting those members directly.

use super::bb::*;
use super::prop::*;
use proptest::prelude::*;
use serde::{Deserialize, Serialize};
use serde_json::{json, Map, Value};
use std::collections::BTreeSet;
use std::time::Duration;

#[derive(Debug, Clone, Serialize, Deserialize)]
pub struct WideAggCase {
    /// number of members of the aggregate
    pub members: usize,
    /// member i is: 0..=2 a build, 3 an empty aggregate, 4 an aggregate over the shared build `base`
    pub kind_salt: u8,
    /// one member build fails (index selector), if Some
    pub failing: Option<u8>,
    pub runtime_threads: u8,
}

pub fn wide_agg_case(max: usize) -> impl Strategy<Value = WideAggCase> {
    (0u16..=1000, any::<u8>(), prop::option::weighted(0.2, any::<u8>()), prop::sample::select(vec![0u8, 0, 1, 2, 4])).prop_map(
        move |(x, kind_salt, failing, runtime_threads)| {
            // log-uniform 2..=max
            let lg = (max as f64 / 2.0).log2();
            let members = ((2.0 * (2f64).powf(lg * x as f64 / 1000.0)).round() as usize).clamp(2, max);
            WideAggCase { members, kind_salt, failing, runtime_threads }
        },
    )
}

fn member_kind(c: &WideAggCase, i: usize) -> u8 {
    ((i * 7 + c.kind_salt as usize) % 5) as u8
}

fn write(sb: &Sandbox, c: &WideAggCase) -> (Vec<String>, BTreeSet<String>) {
    let mut targets = Map::new();
    let mut names = vec![];
    let mut builds = BTreeSet::new();
    targets.insert("base".into(), json!({"build": build_script("base", "")}));
    let build_idx: Vec<usize> = (0..c.members).filter(|&i| member_kind(c, i) <= 2).collect();
    let failing = c.failing.and_then(|f| if build_idx.is_empty() { None } else { Some(build_idx[(f as usize * build_idx.len()) >> 8]) });
    for i in 0..c.members {
        let name = format!("m{}", i);
        let doc = match member_kind(c, i) {
            0..=2 => {
                builds.insert(name.clone());
                json!({"build": build_script(&name, if failing == Some(i) { "exit 3" } else { "" })})
            }
            3 => json!({"dependencies": []}),
            _ => json!({"dependencies": ["base"]}),
        };
        targets.insert(name.clone(), doc);
        names.push(name);
    }
    targets.insert("all".into(), json!({"dependencies": names}));
    write_project(&sb.path("proj"), &json!({"targets": targets}));
    (names, builds)
}

pub fn eval_wide_agg(c: &WideAggCase) -> CaseResult {
    set_runtime_threads(c.runtime_threads);
    let sa = Sandbox::new("c20wa");
    let sbb = Sandbox::new("c20wb");
    let (names, builds) = write(&sa, c);
    write(&sbb, c);
    let budget = Duration::from_secs(60 + c.members as u64 / 10);
    let oa = run_zinoma(&sa, &sa.path("proj"), &["all".to_string()], &[], budget, true);
    let ob = run_zinoma(&sbb, &sbb.path("proj"), &names, &[], budget, true);
    let fin = |sb: &Sandbox| -> BTreeSet<String> {
        let t = sb.trace();
        builds.iter().filter(|b| finished(&t, b) > 0).cloned().collect()
    };
    let (fa, fb) = (fin(&sa), fin(&sbb));
    let bucket = (c.members as f64).log2().floor() as u32;
    let mut res = CaseResult {
        nontrivial: c.members > 32,
        fingerprint: format!("{}|{}|{}", bucket, c.failing.is_some(), c.runtime_threads),
        classes: vec![
            format!("members-2^{}", bucket),
            if c.failing.is_some() { "one-member-fails".into() } else { "all-succeed".into() },
            format!("runtime-threads-{}", c.runtime_threads),
        ],
        sample: json!({"members": c.members, "builds": builds.len(), "failing_member": c.failing.is_some(), "runtime_threads": c.runtime_threads,
            "aggregate": {"exit": oa.code(), "finished": fa.len()}, "members_directly": {"exit": ob.code(), "finished": fb.len()}}),
        ..Default::default()
    };
    let replay = |msg: &str| json!({"engine": "BB-c20wide", "case": serde_json::to_value(c).unwrap(), "message": msg,
        "aggregate": {"exit": oa.code(), "hung": oa.hung, "finished": fa.len(), "stderr_tail": oa.stderr.lines().rev().take(3).collect::<Vec<_>>()},
        "members_directly": {"exit": ob.code(), "hung": ob.hung, "finished": fb.len(), "stderr_tail": ob.stderr.lines().rev().take(3).collect::<Vec<_>>()}});
    if (oa.timed_out && !oa.hung) || (ob.timed_out && !ob.hung) {
        res.inconclusive = Some("still busy at wall budget".into());
        return res;
    }
    if oa.hung && ob.hung {
        res.inconclusive = Some("both invocations idle and unfinished (C04's business)".into());
        return res;
    }
    let mut fail = |sig: &str, msg: String| {
        res.signature = Some(format!("bb-c20w:{}", sig));
        res.replay = replay(&msg);
        res.violation = Some(msg);
    };
    if oa.hung != ob.hung {
        let (who, other) = if oa.hung { ("the aggregate", "its members directly") } else { ("the members directly", "the aggregate") };
        fail("one-side-hangs", format!(
            "aggregate over {} members: requesting {} leaves zinoma idle and unfinished ({} of {} member scripts finished), requesting {} exits",
            c.members, who, if oa.hung { fa.len() } else { fb.len() }, builds.len(), other));
        return res;
    }
    if oa.success() != ob.success() {
        fail("verdict", format!("aggregate over {} members: exit {:?} through the aggregate, {:?} when the members are requested directly", c.members, oa.code(), ob.code()));
        return res;
    }
    if c.failing.is_none() && fa != fb {
        let d: Vec<&String> = fa.symmetric_difference(&fb).take(5).collect();
        fail("ran-set", format!("aggregate over {} members: the finished scripts differ between the two requests (e.g. {:?})", c.members, d));
        return res;
    }
    res
}

pub fn replay_wide_agg(v: &Value) -> Result<CaseResult, String> {
    let c: WideAggCase = serde_json::from_value(v["case"].clone()).map_err(|e| format!("bad case: {}", e))?;
    Ok(eval_wide_agg(&c))
}
