//! Drives SIM cases through proptest (generation + shrinking), in parallel over derived seeds.

use super::report::*;
use super::sim::*;
use super::sim_oracles::*;
use super::prop::*;
use serde_json::{json, Value};

pub fn case_summary(case: &SimCase) -> Value {
    let g = &case.graph;
    let targets: Vec<String> = (0..g.n())
        .map(|i| {
            let t = &g.targets[i];
            format!(
                "{}:{:?} deps={:?} out={:?}{}{}",
                g.ids(i),
                t.kind,
                t.deps.iter().map(|&j| g.ids(j)).collect::<Vec<_>>(),
                t.outdeps.iter().map(|&j| g.ids(j)).collect::<Vec<_>>(),
                if case.uptodate.get(i).copied().unwrap_or(false) { " uptodate" } else { "" },
                match case.fail.get(i).copied().unwrap_or(0) {
                    1 => " fails",
                    2 => " cannot-launch",
                    3 => " fails-once",
                    _ => "",
                }
            )
        })
        .collect();
    json!({
        "targets": targets,
        "requested": case.roots.iter().map(|&r| g.ids(r)).collect::<Vec<_>>(),
        "watch": case.watch,
        "notices": case.notices.iter().map(|&r| g.ids(r)).collect::<Vec<_>>(),
        "early_term": case.early_term,
        "withhold_finishes": case.withhold,
        "schedule_len": case.sched.len(),
    })
}

pub type Oracle = fn(&SimCase, &SimRun) -> Verdict;

fn no_fixup(_: &mut SimCase) {}

pub fn run_sim(
    ctx: &Ctx,
    params: SimParams,
    total_cases: u32,
    oracle: Oracle,
    rule: &str,
    stream: u64,
) -> (Part, Vec<Failure>) {
    run_sim_with(ctx, params, total_cases, oracle, rule, stream, no_fixup)
}

pub fn eval_sim(case: &SimCase, oracle: Oracle) -> CaseResult {
    let run = run_case(case);
    let v = oracle(case, &run);
    let replay = if v.violation.is_some() {
        json!({
            "engine": "SIM",
            "summary": case_summary(case),
            "case": serde_json::to_value(case).unwrap(),
            "history": render_events(&run.events),
        })
    } else {
        Value::Null
    };
    CaseResult {
        signature: v
            .violation
            .as_ref()
            .map(|m| format!("sim:{}", m.split(':').next().unwrap_or(""))),
        violation: v.violation,
        inconclusive: v.inconclusive,
        nontrivial: v.nontrivial,
        fingerprint: v.fingerprint,
        classes: v.classes,
        sample: case_summary(case),
        replay,
    }
}

pub fn run_sim_with(
    ctx: &Ctx,
    params: SimParams,
    total_cases: u32,
    oracle: Oracle,
    rule: &str,
    stream: u64,
    fixup: fn(&mut SimCase),
) -> (Part, Vec<Failure>) {
    let pr = PropRun {
        ctx,
        engine: "SIM",
        rule,
        total_cases,
        threads: ctx.threads,
        max_shrink_iters: 4000,
        stream,
    };
    run_prop(
        &pr,
        || sim_case(params),
        |case: &SimCase| {
            let mut case = case.clone();
            fixup(&mut case);
            eval_sim(&case, oracle)
        },
    )
}

/// Replay of a stored SIM case, bypassing the library.
pub fn replay_sim(v: &Value, oracle: Oracle) -> Result<Option<String>, String> {
    let case: SimCase =
        serde_json::from_value(v["case"].clone()).map_err(|e| format!("bad SIM case: {}", e))?;
    let run = run_case(&case);
    let verdict = oracle(&case, &run);
    Ok(verdict.violation)
}

// ---------------------------------------------------------------------------
// C20: metamorphic pairs (aggregate vs its dependencies)

/// Picks the aggregate to test: a requested one if any, else the last aggregate of the graph
/// (which is then requested in run A).
pub fn c20_pair(case: &SimCase) -> Option<(SimCase, SimCase, usize)> {
    use super::graph::Kind;
    let g = &case.graph;
    let aggs: Vec<usize> = (0..g.n()).filter(|&i| g.targets[i].kind == Kind::Aggregate).collect();
    let gi = case
        .roots
        .iter()
        .copied()
        .find(|r| aggs.contains(r))
        .or_else(|| aggs.last().copied())?;
    let others: Vec<usize> = case.roots.iter().copied().filter(|&r| r != gi).collect();
    let mut a_roots = vec![gi];
    a_roots.extend(others.iter().copied());
    let mut b_roots: Vec<usize> = g.edges(gi);
    b_roots.extend(others.iter().copied());
    if b_roots.is_empty() {
        return None;
    }
    let mut a = case.clone();
    a.roots = a_roots;
    a.watch = false;
    a.early_term = false;
    a.notices.clear();
    let mut b = a.clone();
    b.roots = b_roots;
    Some((a, b, gi))
}

pub fn eval_c20_sim(case: &SimCase) -> CaseResult {
    use super::graph::Kind;
    let mut res = CaseResult {
        sample: case_summary(case),
        ..Default::default()
    };
    let (a, b, gi) = match c20_pair(case) {
        Some(x) => x,
        None => {
            res.classes.push("no-aggregate".into());
            return res;
        }
    };
    let g = &case.graph;
    let ra = run_case(&a);
    let rb = run_case(&b);
    if ra.step_bound_hit || rb.step_bound_hit || ra.config_error.is_some() || rb.config_error.is_some() {
        res.inconclusive = Some("step bound / configuration".into());
        return res;
    }
    let oa = observe(&a, &ra);
    let ob = observe(&b, &rb);
    let nested = g.edges(gi).iter().any(|&d| g.targets[d].kind == Kind::Aggregate);
    let empty = g.edges(gi).is_empty();
    let has_svc = g.has_service_behind(gi);
    let mut classes = vec![];
    if nested {
        classes.push("nested-aggregate".to_string());
    }
    if empty {
        classes.push("empty-aggregate".to_string());
    }
    if has_svc {
        classes.push("aggregate-over-service".to_string());
    }
    if g.has_build_behind(gi) {
        classes.push("aggregate-over-build".to_string());
    }
    let failure = a.fail.iter().enumerate().any(|(i, &f)| f != 0 && g.closure(&a.roots).contains(&i));
    if failure {
        classes.push("failing-member".to_string());
    }
    res.nontrivial = nested || empty || has_svc;
    res.fingerprint = format!("{:?}|{:?}", classes, g.classes(&a.roots));
    res.classes = classes;
    res.sample = json!({"graph": case_summary(case), "aggregate": g.ids(gi),
        "request_A": a.roots.iter().map(|&r| g.ids(r)).collect::<Vec<_>>(), "request_B": b.roots.iter().map(|&r| g.ids(r)).collect::<Vec<_>>()});
    let replay = |msg: &str| json!({"engine": "SIM-c20", "case": serde_json::to_value(case).unwrap(), "message": msg,
        "summary": case_summary(case), "aggregate": g.ids(gi),
        "A": {"requested": a.roots.iter().map(|&r| g.ids(r)).collect::<Vec<_>>(), "observed": format!("{:?}", oa), "history": render_events(&ra.events)},
        "B": {"requested": b.roots.iter().map(|&r| g.ids(r)).collect::<Vec<_>>(), "observed": format!("{:?}", ob), "history": render_events(&rb.events)}});
    let fail = |mut res: CaseResult, sig: &str, msg: String| {
        res.signature = Some(format!("sim-c20:{}", sig));
        res.replay = replay(&msg);
        res.violation = Some(msg);
        res
    };
    if oa.verdict_ok != ob.verdict_ok {
        return fail(res, "verdict", format!("requesting aggregate {} ends {:?}, requesting its dependencies ends {:?}", g.ids(gi), oa.verdict_ok, ob.verdict_ok));
    }
    if !oa.failed_named_ok || !ob.failed_named_ok {
        return fail(res, "named", "the error does not name a failing member in one of the two runs".into());
    }
    if !failure {
        if oa.keep_alive != ob.keep_alive {
            return fail(res, "keep-alive", format!("requesting aggregate {}: stays alive = {:?}; requesting its dependencies: {:?}", g.ids(gi), oa.keep_alive, ob.keep_alive));
        }
        if oa.ran != ob.ran || oa.skipped != ob.skipped {
            return fail(res, "scripts", format!("requesting aggregate {} ran {:?} / skipped {:?}; requesting its dependencies ran {:?} / skipped {:?}", g.ids(gi), oa.ran, oa.skipped, ob.ran, ob.skipped));
        }
        if oa.services != ob.services {
            return fail(res, "services", format!("services started differ: {:?} vs {:?}", oa.services, ob.services));
        }
    }
    res
}
