//! Drives SIM cases through proptest (generation + shrinking), in parallel over derived seeds.

use super::report::*;
use super::sim::*;
use super::sim_oracles::*;
use super::prop::*;
use serde_json::{json, Value};

pub fn case_summary(case: &SimCase) -> Value {
    let g = &case.graph;
    let targets: Vec<String> = (0..g.n())
        .map(|i| {
            let t = &g.targets[i];
            format!(
                "{}:{:?} deps={:?} out={:?}{}{}",
                g.ids(i),
                t.kind,
                t.deps.iter().map(|&j| g.ids(j)).collect::<Vec<_>>(),
                t.outdeps.iter().map(|&j| g.ids(j)).collect::<Vec<_>>(),
                if case.uptodate.get(i).copied().unwrap_or(false) { " uptodate" } else { "" },
                match case.fail.get(i).copied().unwrap_or(0) {
                    1 => " fails",
                    2 => " cannot-launch",
                    3 => " fails-once",
                    _ => "",
                }
            )
        })
        .collect();
    json!({
        "targets": targets,
        "requested": case.roots.iter().map(|&r| g.ids(r)).collect::<Vec<_>>(),
        "watch": case.watch,
        "notices": case.notices.iter().map(|&r| g.ids(r)).collect::<Vec<_>>(),
        "early_term": case.early_term,
        "withhold_finishes": case.withhold,
        "schedule_len": case.sched.len(),
    })
}

pub type Oracle = fn(&SimCase, &SimRun) -> Verdict;

fn no_fixup(_: &mut SimCase) {}

pub fn run_sim(
    ctx: &Ctx,
    params: SimParams,
    total_cases: u32,
    oracle: Oracle,
    rule: &str,
    stream: u64,
) -> (Part, Vec<Failure>) {
    run_sim_with(ctx, params, total_cases, oracle, rule, stream, no_fixup)
}

pub fn eval_sim(case: &SimCase, oracle: Oracle) -> CaseResult {
    let run = run_case(case);
    let v = oracle(case, &run);
    let replay = if v.violation.is_some() {
        json!({
            "engine": "SIM",
            "summary": case_summary(case),
            "case": serde_json::to_value(case).unwrap(),
            "history": render_events(&run.events),
        })
    } else {
        Value::Null
    };
    CaseResult {
        signature: v
            .violation
            .as_ref()
            .map(|m| format!("sim:{}", m.split(':').next().unwrap_or(""))),
        violation: v.violation,
        inconclusive: v.inconclusive,
        nontrivial: v.nontrivial,
        fingerprint: v.fingerprint,
        classes: v.classes,
        sample: case_summary(case),
        replay,
    }
}

pub fn run_sim_with(
    ctx: &Ctx,
    params: SimParams,
    total_cases: u32,
    oracle: Oracle,
    rule: &str,
    stream: u64,
    fixup: fn(&mut SimCase),
) -> (Part, Vec<Failure>) {
    let pr = PropRun {
        ctx,
        engine: "SIM",
        rule,
        total_cases,
        threads: ctx.threads,
        max_shrink_iters: 4000,
        stream,
    };
    run_prop(
        &pr,
        || sim_case(params),
        |case: &SimCase| {
            let mut case = case.clone();
            fixup(&mut case);
            eval_sim(&case, oracle)
        },
    )
}

/// Replay of a stored SIM case, bypassing the library.
pub fn replay_sim(v: &Value, oracle: Oracle) -> Result<Option<String>, String> {
    let case: SimCase =
        serde_json::from_value(v["case"].clone()).map_err(|e| format!("bad SIM case: {}", e))?;
    let run = run_case(&case);
    let verdict = oracle(&case, &run);
    Ok(verdict.violation)
}
