//! Drives SIM cases through proptest (generation + shrinking), in parallel over derived seeds.

use super::report::*;
use super::sim::*;
use super::sim_oracles::*;
use proptest::prelude::*;
use proptest::test_runner::{Config, RngAlgorithm, RngSeed, TestCaseError, TestError, TestRunner};
use serde_json::{json, Value};
use std::cell::RefCell;
use std::sync::{Arc, Mutex};

pub fn proptest_config(cases: u32, seed: u64) -> Config {
    Config {
        cases,
        failure_persistence: None,
        rng_seed: RngSeed::Fixed(seed),
        rng_algorithm: RngAlgorithm::ChaCha,
        max_shrink_iters: 4000,
        max_global_rejects: 0,
        ..Config::default()
    }
}

pub fn derive_seed(seed: u64, stream: u64) -> u64 {
    // splitmix-style
    let mut z = seed
        .wrapping_mul(0x9E3779B97F4A7C15)
        .wrapping_add(stream.wrapping_mul(0xBF58476D1CE4E5B9))
        .wrapping_add(0x94D049BB133111EB);
    z = (z ^ (z >> 30)).wrapping_mul(0xBF58476D1CE4E5B9);
    z = (z ^ (z >> 27)).wrapping_mul(0x94D049BB133111EB);
    z ^ (z >> 31)
}

pub fn case_summary(case: &SimCase) -> Value {
    let g = &case.graph;
    let targets: Vec<String> = (0..g.n())
        .map(|i| {
            let t = &g.targets[i];
            format!(
                "{}:{:?} deps={:?} out={:?}{}{}",
                g.ids(i),
                t.kind,
                t.deps.iter().map(|&j| g.ids(j)).collect::<Vec<_>>(),
                t.outdeps.iter().map(|&j| g.ids(j)).collect::<Vec<_>>(),
                if case.uptodate.get(i).copied().unwrap_or(false) { " uptodate" } else { "" },
                match case.fail.get(i).copied().unwrap_or(0) {
                    1 => " fails",
                    2 => " cannot-launch",
                    3 => " fails-once",
                    _ => "",
                }
            )
        })
        .collect();
    json!({
        "targets": targets,
        "requested": case.roots.iter().map(|&r| g.ids(r)).collect::<Vec<_>>(),
        "watch": case.watch,
        "notices": case.notices.iter().map(|&r| g.ids(r)).collect::<Vec<_>>(),
        "early_term": case.early_term,
        "withhold_finishes": case.withhold,
        "schedule_len": case.sched.len(),
    })
}

pub type Oracle = fn(&SimCase, &SimRun) -> Verdict;

/// One worker: `cases` generated cases. Returns the coverage part and the shrunk failure if any.
fn worker(
    params: SimParams,
    cases: u32,
    seed: u64,
    oracle: Oracle,
    rule: &str,
    fixup: fn(&mut SimCase),
) -> (Part, Option<Failure>) {
    let part = RefCell::new(Part::new("SIM", rule));
    let failed = RefCell::new(false);
    let mut runner = TestRunner::new(proptest_config(cases, seed));
    let strategy = sim_case(params);
    let result = runner.run(&strategy, |mut case| {
        fixup(&mut case);
        let run = run_case(&case);
        let v = oracle(&case, &run);
        if !*failed.borrow() {
            let mut p = part.borrow_mut();
            p.evaluations += 1;
            for c in &v.classes {
                p.class(c);
            }
            if let Some(r) = &v.inconclusive {
                p.inconclusive(r);
            }
            if v.nontrivial && v.violation.is_none() && v.inconclusive.is_none() {
                let fresh = p.nontrivial.insert(fnv(&v.fingerprint));
                if fresh && p.samples.len() < 3 {
                    p.samples.push(case_summary(&case));
                }
            }
        }
        if let Some(msg) = v.violation {
            *failed.borrow_mut() = true;
            return Err(TestCaseError::fail(msg));
        }
        Ok(())
    });
    let failure = match result {
        Ok(()) => None,
        Err(TestError::Fail(reason, mut case)) => {
            fixup(&mut case);
            let run = run_case(&case);
            let v = oracle(&case, &run);
            let message = v
                .violation
                .clone()
                .unwrap_or_else(|| reason.message().to_string());
            Some(Failure {
                signature: format!("sim:{}", message.split(':').next().unwrap_or("")),
                message,
                replay: json!({
                    "engine": "SIM",
                    "summary": case_summary(&case),
                    "case": serde_json::to_value(&case).unwrap(),
                    "history": render_events(&run.events),
                }),
            })
        }
        Err(TestError::Abort(reason)) => Some(Failure {
            signature: "sim:abort".into(),
            message: format!("proptest aborted: {}", reason.message()),
            replay: json!({"engine": "SIM"}),
        }),
    };
    (part.into_inner(), failure)
}

fn no_fixup(_: &mut SimCase) {}

pub fn run_sim(
    ctx: &Ctx,
    params: SimParams,
    total_cases: u32,
    oracle: Oracle,
    rule: &str,
    stream: u64,
) -> (Part, Vec<Failure>) {
    run_sim_with(ctx, params, total_cases, oracle, rule, stream, no_fixup)
}

pub fn run_sim_with(
    ctx: &Ctx,
    params: SimParams,
    total_cases: u32,
    oracle: Oracle,
    rule: &str,
    stream: u64,
    fixup: fn(&mut SimCase),
) -> (Part, Vec<Failure>) {
    let threads = ctx.threads.max(1);
    let per = (total_cases as usize).div_ceil(threads) as u32;
    let results: Arc<Mutex<Vec<(usize, Part, Option<Failure>)>>> =
        Arc::new(Mutex::new(Vec::new()));
    std::thread::scope(|scope| {
        for t in 0..threads {
            let results = results.clone();
            let seed = derive_seed(ctx.seed, stream * 1000 + t as u64);
            let rule = rule.to_string();
            std::thread::Builder::new()
                .stack_size(64 << 20)
                .spawn_scoped(scope, move || {
                    let (part, failure) = worker(params, per, seed, oracle, &rule, fixup);
                    results.lock().unwrap().push((t, part, failure));
                })
                .expect("spawn worker");
        }
    });
    let mut results = Arc::try_unwrap(results).unwrap().into_inner().unwrap();
    results.sort_by_key(|r| r.0);
    let mut part = Part::new("SIM", rule);
    let mut failures = Vec::new();
    for (_, p, f) in results {
        part.merge(p);
        if let Some(f) = f {
            failures.push(f);
        }
    }
    // one failure per distinct message is enough
    failures.dedup_by(|a, b| a.signature == b.signature);
    failures.truncate(3);
    (part, failures)
}

/// Replay of a stored SIM case, bypassing the library.
pub fn replay_sim(v: &Value, oracle: Oracle) -> Result<Option<String>, String> {
    let case: SimCase =
        serde_json::from_value(v["case"].clone()).map_err(|e| format!("bad SIM case: {}", e))?;
    let run = run_case(&case);
    let verdict = oracle(&case, &run);
    Ok(verdict.violation)
}
