//! INC checks on configuration loading and resolution: C09 (closure / broken graphs),
//! C14 (strict, total, deterministic validation), C19 (name resolution).

use super::bb::*;
use super::projset::*;
use super::prop::*;
use crate::config::{ir, yaml};
use crate::domain::{Target, TargetId};
use proptest::prelude::*;
use serde_json::{json, Value};
use std::collections::{BTreeMap, BTreeSet, HashMap};
use std::path::{Path, PathBuf};

fn no_script(_: usize, t: &PTarget) -> String {
    format!("echo {}", t.name)
}

fn load(sb: &Sandbox) -> anyhow::Result<yaml::Config> {
    yaml::Config::load(&sb.path("proj"))
}

fn kind_of(t: &Target) -> PKind {
    match t {
        Target::Build(_) => PKind::Build,
        Target::Service(_) => PKind::Service,
        Target::Aggregate(_) => PKind::Aggregate,
    }
}

fn tid(ps: &ProjSet, n: (usize, usize)) -> TargetId {
    TargetId {
        project_name: ps.projects[n.0].name.clone(),
        target_name: ps.projects[n.0].targets[n.1].name.clone(),
    }
}

/// Runs a closure on a thread with a large stack and a generous deadline; None = still running
/// (reported as "hangs"), Some(Err) = panicked.
fn guarded<T: Send + 'static>(
    f: impl FnOnce() -> T + Send + 'static,
) -> Option<std::thread::Result<T>> {
    let (tx, rx) = std::sync::mpsc::channel();
    std::thread::Builder::new()
        .stack_size(256 << 20)
        .spawn(move || {
            let r = std::panic::catch_unwind(std::panic::AssertUnwindSafe(f));
            let _ = tx.send(r);
        })
        .expect("spawn");
    rx.recv_timeout(std::time::Duration::from_secs(20)).ok()
}

// ---------------------------------------------------------------------------
// C09

#[derive(Debug, Clone)]
pub struct C09Case {
    pub ps: ProjSet,
    pub req: Vec<u8>,
}

pub fn c09_case() -> impl Strategy<Value = C09Case> {
    (
        projset(PsParams {
            defects: 0,
            broken_refs: true,
        }),
        prop::collection::vec(any::<u8>(), 1..=3),
    )
        .prop_map(|(ps, req)| C09Case { ps, req })
}

pub fn pick_requested(ps: &ProjSet, req: &[u8]) -> Vec<(String, (usize, usize))> {
    let names: Vec<(String, (usize, usize))> = ps.name_map().into_iter().collect();
    let mut out = vec![];
    for &b in req {
        let k = (b as usize * names.len()) >> 8;
        out.push(names[k].clone());
    }
    out
}

pub fn eval_c09(c: &C09Case) -> CaseResult {
    catch_case(
        "inc-c09:panic",
        |msg| json!({"engine": "INC-c09", "projset": serde_json::to_value(&c.ps).unwrap(), "req": c.req, "message": msg}),
        || eval_c09_inner(c),
    )
}

fn eval_c09_inner(c: &C09Case) -> CaseResult {
    let ps = &c.ps;
    let mut res = CaseResult {
        sample: json!({"projects": ps.summary()}),
        ..Default::default()
    };
    let sb = Sandbox::new("c09");
    ps.write(&sb, &no_script);
    let requested = pick_requested(ps, &c.req);
    let req_names: Vec<String> = requested.iter().map(|(n, _)| n.clone()).collect();
    let roots: Vec<(usize, usize)> = requested.iter().map(|(_, n)| *n).collect();
    res.sample["requested"] = json!(req_names);
    let reference = ps.reference_closure(&roots);

    // defects that exist anywhere (reachable or not), for classification
    let mut any_defect_anywhere = false;
    for (pi, p) in ps.projects.iter().enumerate() {
        for (ti, _) in p.targets.iter().enumerate() {
            if ps.reference_closure(&[(pi, ti)]).is_err() {
                any_defect_anywhere = true;
            }
        }
    }
    let mut classes = vec![];
    match &reference {
        Ok(clo) => {
            classes.push("valid".to_string());
            if any_defect_anywhere {
                classes.push("defect-present-but-unreachable".into());
            }
            if clo.iter().map(|n| n.0).collect::<BTreeSet<_>>().len() >= 2 {
                classes.push("cross-project".into());
            }
            // diamond revisit
            let mut indeg: BTreeMap<(usize, usize), usize> = BTreeMap::new();
            for &n in clo {
                let t = &ps.projects[n.0].targets[n.1];
                for r in t.deps.iter().chain(t.outs.iter()) {
                    if let Ok(d) = ps.resolve_ref(n.0, r) {
                        *indeg.entry(d).or_default() += 1;
                    }
                }
            }
            if indeg.values().any(|&k| k >= 2) {
                classes.push("shared-revisit".into());
            }
        }
        Err(e) => {
            classes.push("invalid".to_string());
            let class = if e.starts_with("cycle") {
                "cycle"
            } else if e.starts_with("unknown project") {
                "unknown-project"
            } else if e.starts_with("unknown target") {
                "unknown-target"
            } else {
                "output-of-non-build"
            };
            classes.push(class.into());
        }
    }
    res.nontrivial = classes.iter().any(|c| {
        matches!(
            c.as_str(),
            "defect-present-but-unreachable" | "cross-project" | "shared-revisit" | "cycle" | "unknown-project" | "output-of-non-build"
        )
    });
    // distinct = class set x #projects x closure size x #requested x kinds of references involved
    let shape = match &reference {
        Ok(clo) => format!("clo{}", clo.len().min(9)),
        Err(e) => e.split(' ').take(2).collect::<Vec<_>>().join("-"),
    };
    let refs: usize = ps.projects.iter().map(|p| p.targets.iter().map(|t| t.deps.len() + 2 * t.outs.len()).sum::<usize>()).sum();
    res.fingerprint = format!("{:?}|n={}|{}|req{}|refs{}", classes, ps.projects.len(), shape, c.req.len(), refs.min(12));
    res.classes = classes;

    let root = sb.path("proj");
    let req_names2 = req_names.clone();
    let outcome = guarded(move || -> Result<Result<Vec<(String, String, Vec<String>)>, String>, String> {
        let config = yaml::Config::load(&root).map_err(|e| format!("{:#}", e))?;
        let config: ir::Config = config.into();
        let ids = TargetId::try_parse_many(&req_names2, &config.root_project_name)
            .map_err(|e| format!("{:#}", e))?;
        Ok(match config.try_into_domain_targets(&ids) {
            Ok(map) => Ok(map
                .iter()
                .map(|(id, t)| {
                    (
                        id.to_string(),
                        t.metadata().project_dir.display().to_string(),
                        t.dependencies().iter().map(|d| d.to_string()).collect(),
                    )
                })
                .collect()),
            Err(e) => Err(format!("{:#}", e)),
        })
    });
    let replay = |msg: &str| json!({"engine": "INC-c09", "projset": serde_json::to_value(ps).unwrap(), "req": c.req, "requested": req_names, "message": msg});
    let fail = |mut res: CaseResult, sig: &str, msg: String| {
        res.signature = Some(format!("inc-c09:{}", sig));
        res.replay = replay(&msg);
        res.violation = Some(msg);
        res
    };
    let outcome = match outcome {
        None => return fail(res, "hang", "the resolver did not return within 20 s (cyclic project hangs?)".into()),
        Some(Err(_)) => return fail(res, "panic", "the loader / resolver panicked (or overflowed its stack)".into()),
        Some(Ok(Err(e))) => {
            res.inconclusive = Some(format!("generated configuration rejected by the loader: {}", e));
            return res;
        }
        Some(Ok(Ok(o))) => o,
    };
    match (reference, outcome) {
        (Ok(clo), Ok(got)) => {
            let want: BTreeSet<String> = clo.iter().map(|&n| tid(ps, n).to_string()).collect();
            let have: BTreeSet<String> = got.iter().map(|g| g.0.clone()).collect();
            if want != have {
                return fail(
                    res,
                    "closure-mismatch",
                    format!(
                        "requested {:?}: zinoma works on {:?}, the dependency closure is {:?}",
                        req_names, have, want
                    ),
                );
            }
            for &n in &clo {
                let t = &ps.projects[n.0].targets[n.1];
                let id = tid(ps, n).to_string();
                let g = got.iter().find(|g| g.0 == id).unwrap();
                let expect_dir = std::fs::canonicalize(sb.path(&ps.projects[n.0].dir)).unwrap();
                if Path::new(&g.1) != expect_dir {
                    return fail(
                        res,
                        "wrong-project-dir",
                        format!("{} is bound to directory {} instead of {}", id, g.1, expect_dir.display()),
                    );
                }
                for r in t.deps.iter().chain(t.outs.iter()) {
                    let d = ps.resolve_ref(n.0, r).unwrap();
                    let did = tid(ps, d).to_string();
                    if !g.2.contains(&did) {
                        return fail(
                            res,
                            "missing-dependency",
                            format!(
                                "{}: reference {:?} (meaning {}) is missing from its dependencies {:?}",
                                id,
                                r.text(),
                                did,
                                g.2
                            ),
                        );
                    }
                }
            }
            res
        }
        (Err(_), Err(_)) => res,
        (Ok(clo), Err(e)) => fail(
            res,
            "rejected-valid",
            format!(
                "requested {:?} (closure of {} targets, no reachable defect) was refused: {}",
                req_names,
                clo.len(),
                e
            ),
        ),
        (Err(why), Ok(got)) => fail(
            res,
            "accepted-invalid",
            format!(
                "requested {:?}: reachable defect ({}) but zinoma accepted and would work on {:?}",
                req_names,
                why,
                got.iter().map(|g| g.0.clone()).collect::<Vec<_>>()
            ),
        ),
    }
}

// ---------------------------------------------------------------------------
// C19

pub fn c19_case() -> impl Strategy<Value = C09Case> {
    (
        projset(PsParams {
            defects: 0,
            broken_refs: false,
        }),
        prop::collection::vec(any::<u8>(), 1..=3),
    )
        .prop_map(|(ps, req)| C09Case { ps, req })
}

pub fn eval_c19(c: &C09Case) -> CaseResult {
    catch_case(
        "inc-c19:panic",
        |msg| json!({"engine": "INC-c19", "projset": serde_json::to_value(&c.ps).unwrap(), "req": c.req, "message": msg}),
        || eval_c19_inner(c),
    )
}

fn eval_c19_inner(c: &C09Case) -> CaseResult {
    let ps = &c.ps;
    let mut res = CaseResult {
        sample: json!({"projects": ps.summary()}),
        ..Default::default()
    };
    let sb = Sandbox::new("c19");
    ps.write(&sb, &no_script);
    let name_map = ps.name_map();
    // sharing pattern: target names present in >= 2 projects
    let mut by_name: BTreeMap<String, BTreeSet<usize>> = BTreeMap::new();
    for &i in &ps.loaded() {
        for t in &ps.projects[i].targets {
            by_name.entry(t.name.clone()).or_default().insert(i);
        }
    }
    let shared: Vec<&String> = by_name.iter().filter(|(_, s)| s.len() >= 2).map(|(n, _)| n).collect();
    let root_named = ps.projects[0].name.is_some();
    let replay = |msg: &str| json!({"engine": "INC-c19", "projset": serde_json::to_value(ps).unwrap(), "req": c.req, "message": msg});
    let fail = |mut res: CaseResult, sig: &str, msg: String| {
        res.signature = Some(format!("inc-c19:{}", sig));
        res.replay = replay(&msg);
        res.violation = Some(msg);
        res
    };
    let cfg = match load(&sb) {
        Ok(c) => c,
        Err(e) => {
            res.inconclusive = Some(format!("generated configuration rejected: {:#}", e));
            return res;
        }
    };
    let config: ir::Config = cfg.into();
    let have: BTreeSet<String> = config.list_all_available_target_names().into_iter().collect();
    let want: BTreeSet<String> = name_map.keys().cloned().collect();
    let mut classes = vec![format!("projects-{}", ps.loaded().len())];
    if root_named {
        classes.push("named-root".into());
    }
    if !shared.is_empty() {
        classes.push("shared-target-name".into());
    }
    if have != want {
        return fail(
            res,
            "name-set",
            format!(
                "accepted command-line names differ: missing {:?}, unexpected {:?}",
                want.difference(&have).collect::<Vec<_>>(),
                have.difference(&want).collect::<Vec<_>>()
            ),
        );
    }
    // requested spellings: for root targets both spellings when the root is named
    let mut requested: Vec<String> = vec![];
    let mut expect_ids: BTreeSet<(usize, usize)> = BTreeSet::new();
    let picked = pick_requested(ps, &c.req);
    let mut used_shared = false;
    for (name, n) in &picked {
        requested.push(name.clone());
        expect_ids.insert(*n);
        if n.0 == 0 && root_named {
            // the other spelling too
            let t = &ps.projects[0].targets[n.1].name;
            let other = if name.contains("::") {
                t.clone()
            } else {
                format!("{}::{}", ps.projects[0].name.clone().unwrap(), t)
            };
            requested.push(other);
            classes.push("both-spellings".into());
        }
        if shared.contains(&&ps.projects[n.0].targets[n.1].name) {
            used_shared = true;
        }
    }
    res.sample["requested"] = json!(requested);
    let ids = match TargetId::try_parse_many(&requested, &config.root_project_name) {
        Ok(i) => i,
        Err(e) => return fail(res, "parse", format!("accepted names {:?} do not parse: {:#}", requested, e)),
    };
    let distinct: BTreeSet<String> = ids.iter().map(|i| i.to_string()).collect();
    if distinct.len() != expect_ids.len() {
        return fail(
            res,
            "spelling",
            format!(
                "spellings {:?} denote {} targets, parsed into {} distinct ids {:?}",
                requested,
                expect_ids.len(),
                distinct.len(),
                distinct
            ),
        );
    }
    // resolution: references are acyclic? not necessarily; only check when the reference says so
    let roots: Vec<(usize, usize)> = expect_ids.iter().copied().collect();
    let reference = ps.reference_closure(&roots);
    let got = config.try_into_domain_targets(&ids);
    let mut bare_ref_to_shared = false;
    match (reference, got) {
        (Ok(clo), Ok(map)) => {
            let by_id: HashMap<String, &Target> = map.iter().map(|(k, v)| (k.to_string(), v)).collect();
            if by_id.len() != clo.len() {
                return fail(
                    res,
                    "closure-size",
                    format!("requested {:?}: {} targets resolved, expected {}", requested, by_id.len(), clo.len()),
                );
            }
            for &n in &clo {
                let p = &ps.projects[n.0];
                let t = &p.targets[n.1];
                let id = tid(ps, n).to_string();
                let got_t = match by_id.get(&id) {
                    Some(t) => *t,
                    None => return fail(res, "missing", format!("{} missing from the resolved set", id)),
                };
                let dir = std::fs::canonicalize(sb.path(&p.dir)).unwrap();
                let got_dir: PathBuf = got_t.metadata().project_dir.clone().into();
                if got_dir != dir {
                    return fail(
                        res,
                        "wrong-project",
                        format!("{} resolved to the target of {} instead of {}", id, got_dir.display(), dir.display()),
                    );
                }
                if kind_of(got_t) != t.kind {
                    return fail(res, "wrong-kind", format!("{} resolved to a {:?} target, declared {:?}", id, kind_of(got_t), t.kind));
                }
                for r in t.deps.iter().chain(t.outs.iter()) {
                    if r.project.is_none() {
                        // a bare reference means a target of the same project
                        let want = TargetId {
                            project_name: p.name.clone(),
                            target_name: r.target.clone(),
                        }
                        .to_string();
                        if !got_t.dependencies().iter().any(|d| d.to_string() == want) {
                            return fail(
                                res,
                                "bare-reference",
                                format!(
                                    "{}: bare reference {:?} should mean {} but its dependencies are {:?}",
                                    id,
                                    r.target,
                                    want,
                                    got_t.dependencies().iter().map(|d| d.to_string()).collect::<Vec<_>>()
                                ),
                            );
                        }
                        if shared.contains(&&r.target) {
                            bare_ref_to_shared = true;
                        }
                    }
                }
            }
        }
        (Err(_), Err(_)) => {}
        (Ok(_), Err(e)) => {
            return fail(res, "rejected", format!("requested {:?} refused: {:#}", requested, e));
        }
        (Err(why), Ok(_)) => {
            return fail(res, "accepted", format!("requested {:?} accepted despite {}", requested, why));
        }
    }
    if used_shared {
        classes.push("requested-shared-name".into());
    }
    if bare_ref_to_shared {
        classes.push("bare-reference-to-shared-name".into());
    }
    res.nontrivial = !shared.is_empty() && (used_shared || bare_ref_to_shared);
    res.fingerprint = format!("{:?}|{}", classes, shared.len().min(3));
    res.classes = classes;
    res
}

// ---------------------------------------------------------------------------
// C14 (structured part)

pub fn c14_case() -> impl Strategy<Value = ProjSet> {
    projset(PsParams {
        defects: 1,
        broken_refs: false,
    })
}

/// name -> (project dir, kind, dependencies) for every accepted name, or the load error.
fn canonical_meaning(root: &Path) -> Result<BTreeMap<String, String>, String> {
    let cfg = yaml::Config::load(root).map_err(|e| format!("{:#}", e))?;
    let config: ir::Config = cfg.into();
    let mut names = config.list_all_available_target_names();
    names.sort();
    names.dedup();
    let mut out = BTreeMap::new();
    out.insert("<all names>".to_string(), names.join(","));
    for name in names.iter().take(16) {
        // fresh load per name: resolution consumes the configuration
        let cfg = yaml::Config::load(root).map_err(|e| format!("{:#}", e))?;
        let config: ir::Config = cfg.into();
        let id = TargetId::try_parse(name, &config.root_project_name).map_err(|e| format!("{:#}", e))?;
        let meaning = match config.try_into_domain_targets(std::slice::from_ref(&id)) {
            Ok(map) => match map.get(&id) {
                Some(t) => format!(
                    "{} {:?} deps={:?} script={:?}",
                    t.metadata().project_dir.display(),
                    kind_of(t),
                    t.dependencies().iter().map(|d| d.to_string()).collect::<Vec<_>>(),
                    match t {
                        Target::Build(b) => b.build_script.clone(),
                        Target::Service(s) => s.run_script.clone(),
                        _ => String::new(),
                    }
                ),
                None => "missing".to_string(),
            },
            Err(_) => "unresolvable".to_string(),
        };
        out.insert(name.clone(), meaning);
    }
    Ok(out)
}

pub fn eval_c14_structured(ps: &ProjSet, open_signatures: &[String]) -> CaseResult {
    let mut res = CaseResult {
        sample: json!({"projects": ps.summary()}),
        ..Default::default()
    };
    let sb = Sandbox::new("c14");
    // scripts identify the project directory they belong to
    ps.write(&sb, &|pi, t| format!("echo {}-of-{}", t.name, ps.projects[pi].dir));
    let reasons = ps.invalid_reasons(true);
    let only_dup = !reasons.is_empty() && ps.invalid_reasons(false).is_empty();
    let mut classes = vec![format!("projects-{}", ps.loaded().len())];
    if reasons.is_empty() {
        classes.push("valid".into());
    } else {
        classes.push("invalid".into());
        for r in &reasons {
            let c = r.split(|c: char| c == ' ' || c == '(').next().unwrap_or("").to_string();
            let c = if r.contains("both named") {
                "duplicate-project-name".to_string()
            } else if r.contains("imports the unnamed") {
                "unnamed-import".to_string()
            } else if r.contains("under key") {
                "wrong-import-key".to_string()
            } else if r.starts_with("invalid project name") {
                "bad-project-name".to_string()
            } else if r.starts_with("invalid target name") {
                "bad-target-name".to_string()
            } else {
                c
            };
            if !classes.contains(&c) {
                classes.push(c);
            }
        }
    }
    let has_import_cycle = ps
        .projects
        .iter()
        .enumerate()
        .any(|(i, p)| p.imports.iter().any(|(_, j)| *j <= i));
    if has_import_cycle {
        classes.push("import-cycle-or-self".into());
    }
    res.nontrivial = !reasons.is_empty() || ps.loaded().len() >= 2;
    res.fingerprint = format!("{:?}", classes);
    res.classes = classes;
    let replay = |msg: &str| json!({"engine": "INC-c14", "projset": serde_json::to_value(ps).unwrap(), "message": msg, "validator": reasons});
    let fail = |mut res: CaseResult, sig: &str, msg: String| {
        res.signature = Some(format!("inc-c14:{}", sig));
        res.replay = replay(&msg);
        res.violation = Some(msg);
        res
    };
    if only_dup && open_signatures.iter().any(|s| s == "inc-c14:duplicate-project-name") {
        // excluded by construction while the finding is open (counted by the caller)
        res.inconclusive = Some("excluded: open known finding duplicate-project-name".into());
        return res;
    }
    let root = sb.path("proj");
    let root2 = root.clone();
    let first = guarded(move || canonical_meaning(&root2));
    let first = match first {
        None => return fail(res, "hang", "loading did not return within 20 s".into()),
        Some(Err(_)) => return fail(res, "panic", "loading the configuration panicked".into()),
        Some(Ok(r)) => r,
    };
    match (&first, reasons.is_empty()) {
        (Ok(_), true) | (Err(_), false) => {}
        (Err(e), true) => {
            return fail(
                res,
                "rejected-valid",
                format!("a configuration matching the documented schema was rejected: {}", e),
            )
        }
        (Ok(_), false) => {
            let sig = if only_dup { "duplicate-project-name" } else { "accepted-invalid" };
            return fail(
                res,
                sig,
                format!("accepted although: {}", reasons.join("; ")),
            );
        }
    }
    // determinism over repeated loads (fresh hash seeds per map)
    for _ in 0..7 {
        let again = canonical_meaning(&root);
        // the *verdict* must be stable; error texts may name a different defect first
        let same = match (&first, &again) {
            (Ok(a), Ok(b)) => a == b,
            (Err(_), Err(_)) => true,
            _ => false,
        };
        if !same {
            let diff = match (&first, &again) {
                (Ok(a), Ok(b)) => a
                    .iter()
                    .filter(|(k, v)| b.get(*k) != Some(v))
                    .map(|(k, v)| format!("{}: {} vs {:?}", k, v, b.get(k)))
                    .collect::<Vec<_>>()
                    .join("; "),
                _ => "verdict differs".to_string(),
            };
            return fail(
                res,
                if ps.has_duplicate_names() { "duplicate-project-name" } else { "nondeterministic" },
                format!("two loads of the same files disagree: {}", diff),
            );
        }
    }
    res
}
