//! Generic parallel proptest driver (generation + shrinking + coverage accounting).

use super::report::*;
use proptest::prelude::*;
use proptest::test_runner::{Config, RngAlgorithm, RngSeed, TestCaseError, TestError, TestRunner};
use serde_json::{json, Value};
use std::cell::RefCell;
use std::sync::{Arc, Mutex};

#[derive(Debug, Clone, Default)]
pub struct CaseResult {
    pub violation: Option<String>,
    /// Stable name of what failed (matched against known findings); defaults to the message head.
    pub signature: Option<String>,
    pub inconclusive: Option<String>,
    pub nontrivial: bool,
    pub fingerprint: String,
    pub classes: Vec<String>,
    /// Written into the evidence samples / the replay file.
    pub sample: Value,
    pub replay: Value,
}

pub fn proptest_config(cases: u32, seed: u64, max_shrink_iters: u32) -> Config {
    Config {
        cases,
        failure_persistence: None,
        rng_seed: RngSeed::Fixed(seed),
        rng_algorithm: RngAlgorithm::ChaCha,
        max_shrink_iters,
        max_global_rejects: 0,
        ..Config::default()
    }
}

pub fn derive_seed(seed: u64, stream: u64) -> u64 {
    let mut z = seed
        .wrapping_mul(0x9E3779B97F4A7C15)
        .wrapping_add(stream.wrapping_mul(0xBF58476D1CE4E5B9))
        .wrapping_add(0x94D049BB133111EB);
    z = (z ^ (z >> 30)).wrapping_mul(0xBF58476D1CE4E5B9);
    z = (z ^ (z >> 27)).wrapping_mul(0x94D049BB133111EB);
    z ^ (z >> 31)
}

/// Evaluates a case; a panic of the code under test (in-process engines) becomes a violation of
/// that case, with `replay(message)` as its replay data.
pub fn catch_case(signature: &str, replay: impl FnOnce(&str) -> Value, f: impl FnOnce() -> CaseResult) -> CaseResult {
    match std::panic::catch_unwind(std::panic::AssertUnwindSafe(f)) {
        Ok(r) => r,
        Err(p) => {
            let what = p
                .downcast_ref::<String>()
                .cloned()
                .or_else(|| p.downcast_ref::<&str>().map(|s| s.to_string()))
                .unwrap_or_else(|| "non-string panic payload".into());
            let msg = format!("panic while the case was evaluated in-process: {}", what.lines().next().unwrap_or(""));
            CaseResult {
                violation: Some(msg.clone()),
                signature: Some(signature.to_string()),
                replay: replay(&msg),
                ..Default::default()
            }
        }
    }
}

pub struct PropRun<'a> {
    pub ctx: &'a Ctx,
    pub engine: &'a str,
    pub rule: &'a str,
    pub total_cases: u32,
    pub threads: usize,
    pub max_shrink_iters: u32,
    pub stream: u64,
}

/// Wall budget of one generated-search part: once it is exhausted the remaining cases are not
/// evaluated (they are counted as inconclusive "budget exhausted"), so that a tree on which
/// every case is slow (e.g. every child hangs) cannot keep a check running for hours.
pub fn part_budget(ctx: &Ctx) -> std::time::Duration {
    let secs = std::env::var("ZV_PART_BUDGET_S")
        .ok()
        .and_then(|s| s.parse().ok())
        .unwrap_or(match ctx.tier {
            Tier::Quick => 900,
            Tier::Thorough => 5400,
        });
    std::time::Duration::from_secs(secs)
}

fn worker<T, S, F>(
    pr: &PropRun,
    cases: u32,
    seed: u64,
    strategy: S,
    eval: &F,
) -> (Part, Option<Failure>)
where
    T: std::fmt::Debug + Clone,
    S: Strategy<Value = T>,
    F: Fn(&T) -> CaseResult,
{
    // a panic of the code under test while a case is evaluated is a failure of that case (with
    // the case as replay), not the end of the whole check
    let eval = |case: &T| -> CaseResult {
        let engine = pr.engine.to_string();
        let debug = format!("{:?}", case);
        catch_case(&format!("{}:panic", engine.to_lowercase()), move |msg| json!({"engine": engine, "case_debug": debug, "message": msg}), || eval(case))
    };
    let part = RefCell::new(Part::new(pr.engine, pr.rule));
    let failed = RefCell::new(false);
    let mut runner = TestRunner::new(proptest_config(cases, seed, pr.max_shrink_iters));
    let started = std::time::Instant::now();
    let budget = part_budget(pr.ctx);
    let result = runner.run(&strategy, |case| {
        let eval = &eval;
        if started.elapsed() > budget {
            if !*failed.borrow() {
                let mut p = part.borrow_mut();
                p.evaluations += 1;
                p.inconclusive("part budget exhausted: case not evaluated");
                return Ok(());
            }
            // during shrinking: stop exploring further candidates
            return Ok(());
        }
        let r = eval(&case);
        if !*failed.borrow() {
            let mut p = part.borrow_mut();
            p.evaluations += 1;
            for c in &r.classes {
                p.class(c);
            }
            if let Some(reason) = &r.inconclusive {
                p.inconclusive(reason);
            }
            if r.nontrivial && r.violation.is_none() && r.inconclusive.is_none() {
                let fresh = p.nontrivial.insert(fnv(&r.fingerprint));
                if fresh && p.samples.len() < 3 {
                    p.samples.push(r.sample.clone());
                }
            }
        }
        if let Some(msg) = r.violation {
            *failed.borrow_mut() = true;
            return Err(TestCaseError::fail(msg));
        }
        Ok(())
    });
    let failure = match result {
        Ok(()) => None,
        Err(TestError::Fail(reason, case)) => {
            // evaluate the minimal case once more for message / replay data
            let r = eval(&case);
            let message = r
                .violation
                .clone()
                .unwrap_or_else(|| format!("{} (not reproduced on re-evaluation of the shrunk case)", reason.message()));
            let signature = r.signature.clone().unwrap_or_else(|| {
                format!(
                    "{}:{}",
                    pr.engine.to_lowercase(),
                    message.split(':').next().unwrap_or("")
                )
            });
            Some(Failure {
                signature,
                message,
                replay: r.replay,
            })
        }
        Err(TestError::Abort(reason)) => Some(Failure {
            signature: format!("{}:abort", pr.engine.to_lowercase()),
            message: format!("proptest aborted: {}", reason.message()),
            replay: json!({"engine": pr.engine}),
        }),
    };
    (part.into_inner(), failure)
}

/// Runs `total_cases` generated cases over `threads` workers, each with its own derived seed.
pub fn run_prop<T, S, F>(pr: &PropRun, make_strategy: impl Fn() -> S + Sync, eval: F) -> (Part, Vec<Failure>)
where
    T: std::fmt::Debug + Clone,
    S: Strategy<Value = T>,
    F: Fn(&T) -> CaseResult + Sync,
{
    let threads = pr.threads.max(1).min(pr.total_cases.max(1) as usize);
    let per = (pr.total_cases as usize).div_ceil(threads) as u32;
    let results: Arc<Mutex<Vec<(usize, Part, Option<Failure>)>>> =
        Arc::new(Mutex::new(Vec::new()));
    std::thread::scope(|scope| {
        for t in 0..threads {
            let results = results.clone();
            let seed = derive_seed(pr.ctx.seed, pr.stream * 1000 + t as u64);
            let eval = &eval;
            let make_strategy = &make_strategy;
            std::thread::Builder::new()
                .stack_size(64 << 20)
                .spawn_scoped(scope, move || {
                    let (part, failure) = worker(pr, per, seed, make_strategy(), eval);
                    results.lock().unwrap().push((t, part, failure));
                })
                .expect("spawn worker");
        }
    });
    let mut results = Arc::try_unwrap(results)
        .map_err(|_| ())
        .unwrap()
        .into_inner()
        .unwrap();
    results.sort_by_key(|r| r.0);
    let mut part = Part::new(pr.engine, pr.rule);
    let mut failures: Vec<Failure> = Vec::new();
    for (_, p, f) in results {
        part.merge(p);
        if let Some(f) = f {
            if !failures.iter().any(|g| g.signature == f.signature) {
                failures.push(f);
            }
        }
    }
    failures.truncate(4);
    (part, failures)
}
