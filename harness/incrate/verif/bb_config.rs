//! Black-box parts of C09, C14 and C19: generated project sets through the real binary.

use super::bb::*;
use super::inc_config::{pick_requested, C09Case};
use super::projset::*;
use super::prop::*;
use serde_json::{json, Value};
use std::collections::BTreeSet;
use std::time::Duration;

fn sentinel(ps: &ProjSet, pi: usize, t: &PTarget) -> String {
    // scripts of different projects take different times, so that "the run ended when the first
    // of two homonymous targets finished" becomes visible as a missing finish line
    let delay = if pi % 2 == 1 { "sleep 0.25\n" } else { "" };
    format!(
        "echo \"S {d}:{n} $$ $PWD\" >> \"$ZV_TRACE\"\n{delay}echo \"F {d}:{n} $$\" >> \"$ZV_TRACE\"",
        d = ps.projects[pi].dir,
        n = t.name,
        delay = delay
    )
}

/// `which`: "c09" (broken references), "c14" (schema defects, 5 fresh processes), "c19" (names).
pub fn eval_projset_bb(c: &C09Case, which: &str) -> CaseResult {
    let mut ps = c.ps.clone();
    // services would keep zinoma alive: builds and aggregates only
    for p in ps.projects.iter_mut() {
        for t in p.targets.iter_mut() {
            if t.kind == PKind::Service {
                t.kind = PKind::Build;
            }
            if t.mutation == SchemaMut::OutputOnService {
                t.mutation = SchemaMut::None;
            }
        }
    }
    let ps = &ps;
    let sb = Sandbox::new(which);
    ps.write(&sb, &|pi, t| sentinel(ps, pi, t));
    // outputs that a wrong `--clean` would delete
    for p in &ps.projects {
        sb.write(&format!("{}/out/precious.txt", p.dir), b"keep me");
        // recorded state that a refused invocation must leave alone
        sb.write(&format!("{}/.zinoma/planted.checksums", p.dir), b"planted");
    }
    let mut res = CaseResult {
        sample: json!({"projects": ps.summary()}),
        ..Default::default()
    };
    let schema_reasons = ps.invalid_reasons(true);
    let requested = pick_requested(ps, &c.req);
    let mut names: Vec<String> = requested.iter().map(|(n, _)| n.clone()).collect();
    let roots: Vec<(usize, usize)> = requested.iter().map(|(_, n)| *n).collect();
    let root_named = ps.projects[0].name.is_some();
    if which == "c19" {
        // both spellings of root targets
        let mut extra = vec![];
        for (name, n) in &requested {
            if n.0 == 0 && root_named {
                let t = &ps.projects[0].targets[n.1].name;
                extra.push(if name.contains("::") { t.clone() } else { format!("{}::{}", ps.projects[0].name.clone().unwrap(), t) });
            }
        }
        names.extend(extra);
    }
    // one case in five: `--clean` alone, which works on every target of every loaded project
    let bare_clean = which != "c19" && c.req.first().is_some_and(|b| b % 5 == 1);
    let roots: Vec<(usize, usize)> = if bare_clean {
        ps.loaded()
            .into_iter()
            .flat_map(|pi| (0..ps.projects[pi].targets.len()).map(move |ti| (pi, ti)))
            .collect()
    } else {
        roots
    };
    let reference = if schema_reasons.is_empty() { ps.reference_closure(&roots) } else { Err(schema_reasons.join("; ")) };
    let clean = bare_clean || c.req.first().is_some_and(|b| b % 3 == 0);
    let mut args: Vec<String> = vec![];
    if clean {
        args.push("--clean".into());
    }
    if !bare_clean {
        args.extend(names.iter().cloned());
    }
    res.sample["args"] = json!(args);
    let before = snapshot(&sb.root);
    let runs = if which == "c14" { 5 } else { 1 };
    let mut verdicts: Vec<(bool, BTreeSet<String>)> = vec![];
    let mut last_out = None;
    for _ in 0..runs {
        sb.clear_trace();
        let out = run_zinoma(&sb, &sb.path("proj"), &args, &[], Duration::from_secs(40), true);
        if out.timed_out {
            res.inconclusive = Some("still busy at wall budget".into());
            return res;
        }
        let ran: BTreeSet<String> = sb.trace().iter().filter(|t| t.kind == 'S').map(|t| t.id.clone()).collect();
        let hung = out.hung;
        let panicked = out.panicked();
        verdicts.push((out.success(), ran));
        last_out = Some(out);
        if hung || panicked {
            break;
        }
        if reference.is_err() {
            // nothing may have been touched; restore nothing, just compare below
        }
    }
    let out = last_out.unwrap();
    let trace = sb.trace();
    let mut classes = vec![
        if reference.is_ok() { "valid".to_string() } else { "invalid".to_string() },
        if clean { "with-clean".to_string() } else { "no-clean".to_string() },
        format!("projects-{}", ps.loaded().len()),
    ];
    let replay = |msg: &str| json!({"engine": format!("BB-cfg-{}", which), "projset": serde_json::to_value(&c.ps).unwrap(), "req": c.req, "args": args, "message": msg,
        "exit": out.code(), "stderr_tail": out.stderr.lines().rev().take(6).collect::<Vec<_>>()});
    let fail = |mut res: CaseResult, sig: &str, msg: String| {
        res.signature = Some(format!("bb-{}:{}", which, sig));
        res.replay = replay(&msg);
        res.violation = Some(msg);
        res
    };
    if out.panicked() {
        return fail(res, "panic", format!("`zinoma {}` panicked / aborted: {}", args.join(" "), out.stderr.lines().find(|l| l.contains("panicked")).unwrap_or("")));
    }
    if out.hung {
        return fail(res, "hang", format!("`zinoma {}` hangs (idle, never exits)", args.join(" ")));
    }
    if verdicts.iter().any(|v| v != &verdicts[0]) {
        return fail(res, "nondeterministic", format!("`zinoma {}` behaved differently across {} fresh processes: {:?}", args.join(" "), runs, verdicts));
    }
    match &reference {
        Err(why) => {
            classes.push("rejection-expected".into());
            if bare_clean {
                classes.push("bare-clean".into());
            }
            if out.success() {
                return fail(res, "accepted-invalid", format!("`zinoma {}` exited 0 although: {}", args.join(" "), why));
            }
            if !trace.is_empty() {
                return fail(res, "ran-before-rejecting", format!("`zinoma {}` was refused ({}), but scripts ran: {:?}", args.join(" "), why, trace.iter().map(|t| t.id.clone()).collect::<Vec<_>>()));
            }
            let after = snapshot(&sb.root);
            for (p, e) in &before {
                if p.file_name().is_some_and(|n| n.to_string_lossy().starts_with(".zv-")) {
                    continue;
                }
                if after.get(p) != Some(e) {
                    return fail(res, "side-effect", format!("`zinoma {}` was refused ({}), yet {} was deleted or modified", args.join(" "), why, p.display()));
                }
            }
        }
        Ok(_) if bare_clean => {
            // nothing runs; the work directories are removed (details are C12's business)
            classes.push("bare-clean".into());
            if !out.success() {
                return fail(res, "rejected-valid", format!("`zinoma --clean` failed ({:?}) on a valid configuration: {}", out.status, out.stderr.lines().last().unwrap_or("")));
            }
            if !trace.is_empty() {
                return fail(res, "bare-clean-ran", "`zinoma --clean` ran scripts".into());
            }
        }
        Ok(clo) => {
            if !out.success() {
                return fail(res, "rejected-valid", format!("`zinoma {}` failed ({:?}) on a valid configuration: {}", args.join(" "), out.status, out.stderr.lines().last().unwrap_or("")));
            }
            let want: BTreeSet<String> = clo
                .iter()
                .filter(|n| ps.projects[n.0].targets[n.1].kind == PKind::Build)
                .map(|n| format!("{}:{}", ps.projects[n.0].dir, ps.projects[n.0].targets[n.1].name))
                .collect();
            let have = &verdicts[0].1;
            if &want != have {
                return fail(res, "wrong-targets", format!("`zinoma {}` ran {:?}, the closure of the request is {:?}", args.join(" "), have, want));
            }
            for id in &want {
                let k = trace.iter().filter(|t| t.kind == 'S' && &t.id == id).count();
                if k != 1 {
                    return fail(res, "twice", format!("`zinoma {}` ran {} {} times", args.join(" "), id, k));
                }
                if !trace.iter().any(|t| t.kind == 'F' && &t.id == id) {
                    return fail(res, "unfinished", format!("`zinoma {}` exited 0 but the script of {} was started and never finished", args.join(" "), id));
                }
                // each script runs in its own project directory
                let dir = id.split(':').next().unwrap();
                let cwd = trace.iter().find(|t| &t.id == id).map(|t| t.extra.clone()).unwrap_or_default();
                let want_dir = std::fs::canonicalize(sb.path(dir)).unwrap();
                if std::path::Path::new(cwd.trim()) != want_dir {
                    return fail(res, "wrong-directory", format!("{} ran in {} instead of {}", id, cwd, want_dir.display()));
                }
            }
            if clo.iter().map(|n| n.0).collect::<BTreeSet<_>>().len() >= 2 {
                classes.push("cross-project".into());
            }
        }
    }
    if names.len() > requested.len() {
        classes.push("both-spellings".into());
    }
    res.nontrivial = reference.is_err() || classes.iter().any(|c| c == "cross-project" || c == "both-spellings");
    res.fingerprint = format!("{:?}|{}", classes, match &reference { Err(w) => w.split(' ').take(2).collect::<Vec<_>>().join(" "), Ok(c) => format!("{}", c.len().min(5)) });
    res.classes = classes;
    res
}

pub fn replay_projset_bb(v: &Value) -> Result<CaseResult, String> {
    let which = v["engine"].as_str().unwrap_or("").trim_start_matches("BB-cfg-").to_string();
    let ps: ProjSet = serde_json::from_value(v["projset"].clone()).map_err(|e| e.to_string())?;
    let req: Vec<u8> = serde_json::from_value(v["req"].clone()).unwrap_or_default();
    Ok(eval_projset_bb(&C09Case { ps, req }, &which))
}
