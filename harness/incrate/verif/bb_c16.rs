//! C16 (black-box part): in watch mode zinoma's own state writes never trigger anything, and
//! targets whose input is the whole project directory react to exactly the relevant changes.

use super::bb::*;
use super::prop::*;
use proptest::prelude::*;
use serde::{Deserialize, Serialize};
use serde_json::{json, Value};
use std::collections::BTreeSet;
use std::time::{Duration, Instant};

#[derive(Debug, Clone, Serialize, Deserialize)]
pub struct C16bCase {
    /// the service's input: 0 = project root without filter, 1 = project root with filter txt
    pub svc_input: u8,
    /// edits: 0 src/a.txt, 1 other.txt (root level), 2 a file under .zinoma, 3 editor temporary,
    /// 4 data/b.bin (other extension), 5 src/a.txt with a content that makes build b fail
    pub edits: Vec<u8>,
    pub second_build: bool,
    /// the very first run of build b fails (its input starts with the failing content)
    #[serde(default)]
    pub first_fails: bool,
}

pub fn c16b_case() -> impl Strategy<Value = C16bCase> {
    (0u8..2, prop::collection::vec(0u8..6, 0..=5), any::<bool>(), any::<bool>()).prop_map(|(svc_input, edits, second_build, first_fails)| {
        // failing runs of b are only generated without the dependent build c (whose reaction to
        // a failed dependency is not this property's business)
        let fails = first_fails || edits.contains(&5);
        C16bCase {
            svc_input,
            edits,
            second_build: second_build && !fails,
            first_fails,
        }
    })
}

fn wait_idle(z: &mut ZProc, sb: &Sandbox, budget: Duration) -> Result<(), String> {
    let deadline = Instant::now() + budget;
    let mut stable = 0;
    let mut last = (usize::MAX, None);
    while Instant::now() < deadline {
        if let Some(s) = z.try_exit() {
            return Err(format!("zinoma exited: {:?}", s));
        }
        let svc: BTreeSet<i32> = sb.trace().iter().filter(|t| t.kind == 'V').map(|t| t.pid).collect();
        let idle = children_of(z.pid).iter().all(|k| svc.contains(k)) && proc_threads_all_sleeping(z.pid);
        let cur = (sb.trace().len(), proc_cpu_ticks(z.pid));
        if idle && cur == last {
            stable += 1;
            if stable >= 4 {
                return Ok(());
            }
        } else {
            stable = 0;
        }
        last = cur;
        std::thread::sleep(Duration::from_millis(120));
    }
    Err("still busy".into())
}

pub fn eval_c16b(case: &C16bCase) -> CaseResult {
    let sb = Sandbox::new("c16b");
    sb.write("proj/src/a.txt", if case.first_fails { b"bad0".as_slice() } else { b"a0".as_slice() });
    sb.write("proj/other.txt", b"o0");
    sb.write("proj/data/b.bin", b"b0");
    let svc_in = if case.svc_input % 2 == 0 {
        json!([{"paths": ["."]}])
    } else {
        json!([{"paths": ["."], "extensions": ["txt"]}])
    };
    let mut targets = serde_json::Map::new();
    targets.insert("s".into(), json!({"service": "echo \"V s $$\" >> \"$ZV_TRACE\"\nexec sleep 100000", "input": svc_in}));
    targets.insert("b".into(), json!({"build": build_script("b", "if grep -q bad src/a.txt; then exit 1; fi; mkdir -p ../outside_out && cp src/a.txt ../outside_out/a.txt"), "input": [{"paths": ["src"]}]}));
    if case.second_build {
        targets.insert("c".into(), json!({"dependencies": ["b"], "build": build_script("c", "sleep 0.05"), "input": [{"paths": ["data"], "extensions": [".bin"]}]}));
    }
    write_project(&sb.path("proj"), &json!({ "targets": targets }));
    let mut args = vec!["--watch".to_string(), "s".to_string(), "b".to_string()];
    if case.second_build {
        args.push("c".into());
    }
    let mut z = spawn_zinoma(&sb, &sb.path("proj"), &args, &[]);
    let mut res = CaseResult::default();
    let mut history = vec![format!("zinoma {} (fresh tree, no .zinoma yet)", args.join(" "))];
    let (mut want_s, mut want_b, mut want_c) = (1usize, 1usize, if case.second_build { 1usize } else { 0 });
    let mut failure: Option<(String, String)> = None;
    let count = |sb: &Sandbox| -> (usize, usize, usize) {
        let t = sb.trace();
        (svc_started(&t, "s"), started(&t, "b"), started(&t, "c"))
    };
    let mut check = |sb: &Sandbox, when: &str, want: (usize, usize, usize)| -> Option<(String, String)> {
        let have = count(sb);
        if have != want {
            let which = if have.0 != want.0 { ("service s", have.0, want.0) } else if have.1 != want.1 { ("build b", have.1, want.1) } else { ("build c", have.2, want.2) };
            let sig = if which.1 > which.2 { "spurious" } else { "missed" };
            return Some((sig.into(), format!("{}: {} was started {} time(s), expected {}", when, which.0, which.1, which.2)));
        }
        None
    };
    match wait_idle(&mut z, &sb, Duration::from_secs(30)) {
        Ok(()) => failure = check(&sb, "after start-up (zinoma just wrote its first records)", (want_s, want_b, want_c)),
        Err(e) if e.starts_with("zinoma exited") => failure = Some(("exit".into(), e)),
        Err(_) => res.inconclusive = Some("still busy at start-up".into()),
    }
    let mut counter = 0;
    let mut classes: BTreeSet<String> = BTreeSet::new();
    classes.insert(if case.svc_input % 2 == 0 { "service-input-root-unfiltered".into() } else { "service-input-root-txt".into() });
    if case.first_fails {
        classes.insert("first-run-fails".into());
    }
    if failure.is_none() && res.inconclusive.is_none() {
        for e in &case.edits {
            counter += 1;
            let v = if e % 6 == 5 { format!("bad{}", counter) } else { format!("v{}", counter) };
            let (rel, label) = match e % 6 {
                0 => ("proj/src/a.txt", "src/a.txt"),
                5 => ("proj/src/a.txt", "src/a.txt (content that makes b fail)"),
                1 => ("proj/other.txt", "other.txt"),
                2 => ("proj/.zinoma/foreign.txt", ".zinoma/foreign.txt"),
                3 => ("proj/src/a.txt~", "src/a.txt~"),
                _ => ("proj/data/b.bin", "data/b.bin"),
            };
            sb.write("staging/x.tmp", v.as_bytes());
            let _ = std::fs::rename(sb.path("staging/x.tmp"), sb.path(rel));
            history.push(format!("change {}", label));
            classes.insert(format!("edit-{}", label));
            let unfiltered = case.svc_input % 2 == 0;
            match e % 6 {
                0 | 5 => {
                    want_s += 1;
                    want_b += 1;
                    // c depends on b: it is re-checked but its own input did not change -> skipped
                }
                1 => want_s += 1,
                4 => {
                    if unfiltered {
                        want_s += 1;
                    }
                    if case.second_build {
                        want_c += 1;
                    }
                }
                _ => {}
            }
            match wait_idle(&mut z, &sb, Duration::from_secs(20)) {
                Ok(()) => {}
                Err(e) if e.starts_with("zinoma exited") => {
                    failure = Some(("exit".into(), e));
                    break;
                }
                Err(_) => {
                    res.inconclusive = Some("still busy".into());
                    break;
                }
            }
            if let Some(f) = check(&sb, &format!("after the change of {}", label), (want_s, want_b, want_c)) {
                failure = Some(f);
                break;
            }
        }
    }
    z.signal(libc::SIGTERM);
    let out = z.wait(Duration::from_secs(10), false);
    res.nontrivial = true;
    res.fingerprint = format!("{:?}|{}", classes, case.second_build);
    res.classes = classes.into_iter().collect();
    res.sample = json!({"service_input": if case.svc_input % 2 == 0 {"."} else {". (txt)"}, "history": history});
    if let Some((sig, msg)) = failure {
        res.signature = Some(format!("bb-c16:{}", sig));
        res.replay = json!({"engine": "BB-c16", "case": serde_json::to_value(case).unwrap(), "message": msg, "history": history,
            "trace": sb.trace().iter().map(|t| format!("{} {}", t.kind, t.id)).collect::<Vec<_>>(),
            "stderr_tail": out.stderr.lines().rev().take(8).collect::<Vec<_>>()});
        res.violation = Some(msg);
    }
    res
}

pub fn replay_c16b(v: &Value) -> Result<CaseResult, String> {
    let c: C16bCase = serde_json::from_value(v["case"].clone()).map_err(|e| format!("bad case: {}", e))?;
    Ok(eval_c16b(&c))
}
