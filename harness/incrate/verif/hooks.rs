//! Functions called from the guarded hooks in /repo (cfg(zinoma_verif)).
//! Every hook is inert unless the harness armed it on this thread (SIM) or through
//! an environment variable (crash points, used by the black-box C05 driver).

use crate::domain::{BuildTarget, TargetId, TargetMetadata};
use crate::engine::incremental::IncrementalRunResult;
use crate::engine::verif_access::{
    BuildCancellationMessage, BuildTerminationReport, TargetInvalidatedMessage,
};
use anyhow::{anyhow, Result};
use async_std::channel::{Receiver, Sender};
use futures::channel::oneshot;
use futures::executor::LocalSpawner;
use futures::task::LocalSpawnExt;
use futures::{FutureExt, StreamExt};
use std::cell::RefCell;
use std::collections::{BTreeMap, BTreeSet};
use std::future::Future;

#[derive(Debug, Clone, Copy, PartialEq, Eq)]
pub enum Decision {
    Skip,
    Run,
}

#[derive(Debug, Clone, Copy, PartialEq, Eq)]
pub enum Outcome {
    Ok,
    Fail,
}

/// One entry of the totally ordered history of a SIM run.
#[derive(Debug, Clone, PartialEq, Eq)]
pub enum Ev {
    /// An actor task was launched for this target.
    ActorSpawn(String),
    /// The actor task of this target returned.
    ActorExit(String),
    /// The build cycle of a build target began (incremental check pending).
    CheckBegin(String),
    /// The incremental step answered "skip".
    Skipped(String),
    /// The (virtual) build script was spawned.
    Start(String),
    /// The script could not be spawned.
    SpawnFail(String),
    /// The script finished (true = exit 0).
    Finish(String, bool),
    /// The script was killed on cancellation.
    Cancelled(String),
    /// The incremental step recorded the state of a successful run.
    Completed(String),
    SvcStart(String),
    SvcSpawnFail(String),
    SvcStop(String),
    /// Driver: message forwarded from the relay to its destination.
    Forward {
        from: String,
        to: String,
        what: String,
    },
    /// Driver: message emitted by an actor (observed at the next quiescent point).
    Sent {
        from: String,
        to: String,
        what: String,
    },
    /// Driver: error forwarded to the run loop.
    ForwardError(String),
    /// Driver: a stimulus was applied (human readable).
    Stim(String),
    /// Driver: a file-change notice was injected for this target.
    Notify(String),
    /// Driver: quiescent point; number of messages / decisions still pending.
    Quiescent { pending_msgs: usize, pending_decisions: usize, running: usize },
    /// `engine::run` returned.
    RunDone(std::result::Result<(), String>),
    /// `TargetActors::terminate` returned.
    Terminated,
    /// Driver: termination message sent.
    TermSent,
}

pub struct SimState {
    pub spawner: LocalSpawner,
    pub events: Vec<Ev>,
    pub pending_checks: BTreeMap<String, oneshot::Sender<Decision>>,
    pub running: BTreeMap<String, oneshot::Sender<Outcome>>,
    pub live_services: BTreeSet<String>,
    pub inval: BTreeMap<String, Sender<TargetInvalidatedMessage>>,
    /// Targets whose script / service cannot be launched.
    pub spawn_fail: BTreeSet<String>,
    /// Violations detected on the spot by a hook (e.g. two live instances of a service).
    pub immediate: Vec<String>,
    pub actors_spawned: usize,
    pub actors_exited: usize,
}

thread_local! {
    pub static SIM: RefCell<Option<SimState>> = const { RefCell::new(None) };
}

pub fn sim_active() -> bool {
    SIM.with(|s| s.borrow().is_some())
}

pub fn with_sim<R>(f: impl FnOnce(&mut SimState) -> R) -> R {
    SIM.with(|s| f(s.borrow_mut().as_mut().expect("SIM not active")))
}

fn record(ev: Ev) {
    with_sim(|s| s.events.push(ev));
}

/// H3: replacement for `async_std::task` inside `launch_target_actor`.
pub mod sim_task {
    use super::*;
    pub use async_std::task::JoinHandle;

    pub fn spawn<F>(future: F) -> JoinHandle<()>
    where
        F: Future<Output = ()> + Send + 'static,
    {
        if !sim_active() {
            return async_std::task::spawn(future);
        }
        let (tx, rx) = oneshot::channel::<()>();
        with_sim(|s| {
            s.actors_spawned += 1;
            s.spawner
                .spawn_local(async move {
                    future.await;
                    with_sim(|s| s.actors_exited += 1);
                    let _ = tx.send(());
                })
                .expect("spawn_local")
        });
        async_std::task::spawn(async move {
            let _ = rx.await;
        })
    }
}

/// H3: called once per launched actor with the sender end of its invalidation channel.
pub fn register_invalidation_sender(
    target_id: &TargetId,
    sender: &Sender<TargetInvalidatedMessage>,
) {
    if sim_active() {
        let id = target_id.to_string();
        with_sim(|s| {
            s.events.push(Ev::ActorSpawn(id.clone()));
            s.inval.insert(id, sender.clone());
        });
    }
}

/// H5: stands in for `incremental::run` when SIM is active: the harness decides skip / run.
pub async fn virtual_incremental<F>(
    target: &TargetMetadata,
    future: F,
) -> Result<IncrementalRunResult>
where
    F: Future<Output = Result<BuildTerminationReport>>,
{
    let id = target.id.to_string();
    let (tx, rx) = oneshot::channel();
    with_sim(|s| {
        s.events.push(Ev::CheckBegin(id.clone()));
        s.pending_checks.insert(id.clone(), tx);
    });
    let decision = rx.await.unwrap_or(Decision::Run);
    if decision == Decision::Skip {
        record(Ev::Skipped(id));
        return Ok(IncrementalRunResult::Skipped);
    }
    match future.await? {
        BuildTerminationReport::Cancelled => Ok(IncrementalRunResult::Cancelled),
        BuildTerminationReport::Completed => {
            record(Ev::Completed(id));
            Ok(IncrementalRunResult::Completed)
        }
    }
}

/// H4: stands in for the process part of `builder::build_target` when SIM is active.
pub async fn virtual_build(
    target: &BuildTarget,
    mut build_cancellation_events: Receiver<BuildCancellationMessage>,
) -> Result<BuildTerminationReport> {
    let id = target.metadata.id.to_string();
    if with_sim(|s| s.spawn_fail.contains(&id)) {
        record(Ev::SpawnFail(id.clone()));
        return Err(anyhow!("Failed to spawn build command for {}", id));
    }
    let (tx, rx) = oneshot::channel();
    with_sim(|s| {
        s.events.push(Ev::Start(id.clone()));
        if s.running.insert(id.clone(), tx).is_some() {
            s.immediate
                .push(format!("two concurrent runs of build target {}", id));
        }
    });
    futures::select! {
        _ = build_cancellation_events.next().fuse() => {
            with_sim(|s| { s.running.remove(&id); s.events.push(Ev::Cancelled(id.clone())); });
            Ok(BuildTerminationReport::Cancelled)
        },
        outcome = rx.fuse() => {
            match outcome.unwrap_or(Outcome::Fail) {
                Outcome::Ok => { record(Ev::Finish(id, true)); Ok(BuildTerminationReport::Completed) }
                Outcome::Fail => { record(Ev::Finish(id, false)); Err(anyhow!("Build failed with exit status: 1")) }
            }
        },
    }
}

/// H6: virtual service spawn (after the real `stop_service` ran).
pub fn virtual_service_spawn(target_id: &TargetId) -> Result<()> {
    let id = target_id.to_string();
    with_sim(|s| {
        if s.spawn_fail.contains(&id) {
            s.events.push(Ev::SvcSpawnFail(id.clone()));
            return Err(anyhow!("Failed to start service"));
        }
        if !s.live_services.insert(id.clone()) {
            s.immediate.push(format!(
                "service {} started while a previous instance is still running",
                id
            ));
        }
        s.events.push(Ev::SvcStart(id));
        Ok(())
    })
}

/// H6: top of `stop_service`.
pub fn virtual_service_stop(target_id: &TargetId) {
    if sim_active() {
        let id = target_id.to_string();
        with_sim(|s| {
            if s.live_services.remove(&id) {
                s.events.push(Ev::SvcStop(id));
            }
        });
    }
}

// ---------------------------------------------------------------------------
// Crash points (black-box C05). Armed only through the environment.

fn crash_spec() -> &'static Option<(String, Option<String>)> {
    static SPEC: std::sync::OnceLock<Option<(String, Option<String>)>> = std::sync::OnceLock::new();
    SPEC.get_or_init(|| {
        std::env::var("ZINOMA_VERIF_CRASH")
            .ok()
            .map(|p| (p, std::env::var("ZINOMA_VERIF_CRASH_TARGET").ok()))
    })
}

/// H5: abort the process here when `ZINOMA_VERIF_CRASH=<point>` (and the target matches).
pub fn crash_point(point: &str, target: &TargetMetadata) {
    if let Some((p, t)) = crash_spec() {
        if p == point && t.as_ref().is_none_or(|t| *t == target.id.to_string()) {
            std::process::abort();
        }
    }
}

/// H5: `ZINOMA_VERIF_CRASH=partial_write:<k>`: write the first k bytes of the record, then die.
pub fn crash_point_partial_write<S: serde::Serialize>(
    file_path: &std::path::Path,
    target_id: &TargetId,
    state: &S,
) {
    if let Some((p, t)) = crash_spec() {
        if let Some(k) = p.strip_prefix("partial_write:") {
            if t.as_ref().is_none_or(|t| *t == target_id.to_string()) {
                let k: usize = k.parse().unwrap_or(0);
                let bytes = bincode::serialize(state).unwrap_or_default();
                use std::io::Write;
                if let Ok(mut f) = std::fs::File::create(file_path) {
                    let _ = f.write_all(&bytes[..k.min(bytes.len())]);
                    let _ = f.sync_all();
                }
                // Tell the driver how long the full record is.
                if let Ok(p) = std::env::var("ZINOMA_VERIF_CRASH_LEN_FILE") {
                    let _ = std::fs::write(p, bytes.len().to_string());
                }
                std::process::abort();
            }
        }
    }
}

// ---------------------------------------------------------------------------
// H7: watcher barrier.

pub static WATCH_TAP_ARMED: std::sync::atomic::AtomicBool =
    std::sync::atomic::AtomicBool::new(false);

/// (target id, path, id of the notify thread that reported it): one thread per watcher.
pub type TapEntry = (String, std::path::PathBuf, std::thread::ThreadId);

pub fn watch_tap() -> &'static std::sync::Mutex<Vec<TapEntry>> {
    static TAP: std::sync::OnceLock<std::sync::Mutex<Vec<TapEntry>>> = std::sync::OnceLock::new();
    TAP.get_or_init(|| std::sync::Mutex::new(Vec::new()))
}

pub fn watch_event_seen(target_id: &TargetId, result: &notify::Result<notify::Event>) {
    if WATCH_TAP_ARMED.load(std::sync::atomic::Ordering::Relaxed) {
        if let Ok(ev) = result {
            let mut tap = watch_tap().lock().unwrap_or_else(|e| e.into_inner());
            for p in &ev.paths {
                tap.push((target_id.to_string(), p.clone(), std::thread::current().id()));
            }
        }
    }
}
