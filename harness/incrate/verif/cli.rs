//! `vcheck <ID> [--tier quick|thorough] [--replay path]`

use super::bb_c05::*;
use super::bb_c06::*;
use super::bb_c10::*;
use super::bb_c11w::*;
use super::bb_c12::*;
use super::bb_c16::*;
use super::bb_c18::*;
use super::bb_config::*;
use super::bb_graph::*;
use super::fuzz_driver::*;
use super::bb_oneshot::*;
use super::inc_config::*;
use super::inc_fs::*;
use super::inc_incr::*;
use super::inc_watch::*;
use super::projset::*;
use super::prop::*;
use super::report::*;
use super::sim::SimParams;
use super::sim_oracles::*;
use super::sim_runner::*;
use std::path::PathBuf;

pub fn main() -> i32 {
    let args: Vec<String> = std::env::args().skip(1).collect();
    if args.is_empty() {
        eprintln!("usage: vcheck <ID> [--tier quick|thorough] [--replay path]");
        return 2;
    }
    let property = args[0].clone();
    let mut tier = match std::env::var("VERIF_TIER").ok().as_deref() {
        Some("thorough") => Tier::Thorough,
        _ => Tier::Quick,
    };
    let mut replay = None;
    let mut i = 1;
    while i < args.len() {
        match args[i].as_str() {
            "--tier" => {
                i += 1;
                tier = match args.get(i).map(|s| s.as_str()) {
                    Some("thorough") => Tier::Thorough,
                    Some("quick") => Tier::Quick,
                    other => {
                        eprintln!("bad tier {:?}", other);
                        return 2;
                    }
                };
            }
            "--replay" => {
                i += 1;
                replay = args.get(i).map(PathBuf::from);
            }
            other => {
                eprintln!("unknown argument {}", other);
                return 2;
            }
        }
        i += 1;
    }
    let seed = std::env::var("VERIF_SEED")
        .ok()
        .and_then(|s| s.trim().parse::<i64>().ok())
        .map(|s| s as u64)
        .unwrap_or(0);
    let threads = std::env::var("ZV_THREADS")
        .ok()
        .and_then(|s| s.parse().ok())
        .unwrap_or_else(|| {
            std::thread::available_parallelism()
                .map(|n| n.get())
                .unwrap_or(4)
                .min(16)
        });
    cleanup_stale_scratch();
    let ctx = Ctx {
        property: property.clone(),
        tier,
        seed,
        replay,
        threads,
    };
    match property.as_str() {
        "C01" => c01(&ctx),
        "C02" => c02(&ctx),
        "C03" => c03(&ctx),
        "C04" => c04(&ctx),
        "C05" => c05(&ctx),
        "C06" => c06(&ctx),
        "C07" => c07(&ctx),
        "C08" => c08(&ctx),
        "C09" => c09(&ctx),
        "C10" => c10(&ctx),
        "C11" => c11(&ctx),
        "C12" => c12(&ctx),
        "C13" => c13(&ctx),
        "C14" => c14(&ctx),
        "C15" => c15(&ctx),
        "C16" => c16(&ctx),
        "C17" => c17(&ctx),
        "C18" => c18(&ctx),
        "C19" => c19(&ctx),
        "C20" => c20(&ctx),
        _ => {
            eprintln!("unknown property {}", property);
            2
        }
    }
}

/// Committed regression replays of a property (replays/<ID>/*.json), then `--replay` if given.
fn replay_files(ctx: &Ctx) -> Vec<PathBuf> {
    let mut files = Vec::new();
    if let Some(p) = &ctx.replay {
        files.push(p.clone());
        return files;
    }
    let dir = verif_dir().join("replays").join(&ctx.property);
    if let Ok(rd) = std::fs::read_dir(dir) {
        for e in rd.flatten() {
            let p = e.path();
            if p.extension().is_some_and(|x| x == "json") {
                files.push(p);
            }
        }
    }
    files.sort();
    files
}

fn sim_replays(ctx: &Ctx, report: &mut Report, oracle: Oracle) -> u64 {
    let mut n = 0;
    for path in replay_files(ctx) {
        let v = match read_replay(&path) {
            Ok(v) => v,
            Err(e) => {
                report.infra_errors.push(e);
                continue;
            }
        };
        let r = &v["replay"];
        if r["engine"] != "SIM" {
            continue;
        }
        n += 1;
        match replay_sim(r, oracle) {
            Ok(None) => {}
            Ok(Some(msg)) => {
                // re-emit pointing at the stored file itself
                println!("  replay {} still fails: {}", path.display(), msg);
                report.fail(Failure {
                    message: msg.clone(),
                    signature: v["signature"].as_str().unwrap_or("sim:replay").to_string(),
                    replay: r.clone(),
                });
            }
            Err(e) => report.infra_errors.push(e),
        }
    }
    n
}

fn c04(ctx: &Ctx) -> i32 {
    let mut report = Report::new(ctx, "exploration");
    report.assume("SIM: handlers of the actors run to their next await atomically; queue capacities are not exercised there (relay channel unbounded in SIM) - covered by BB-large");
    report.assume("BB: a one-shot zinoma whose scripts are all ':' is deadlocked when it has no live child, every thread sleeps and its CPU time does not advance over 3 consecutive 0.5 s samples; still busy at the budget = inconclusive");
    let n = sim_replays(ctx, &mut report, oracle_c04) + bb_replays(ctx, &mut report);
    let params = SimParams {
        max_n: ctx.tier.pick(10, 14),
        watch: 0,
        failures: 0,
        early_term: 0,
        withhold: 1,
        max_notices: 0,
        sched_len: ctx.tier.pick(120, 300),
    };
    let rule = "generated acyclic graph x requested subset x schedule (one-shot, every script succeeds); deadlock oracle at final quiescence; non-trivial = some Requested message reached a build/service target after it had already finished (late requester); distinct = graph-shape classes x number of late requests x closure size";
    if ctx.replay.is_none() {
        let (mut part, failures) = run_sim(ctx, params, ctx.tier.pick(150_000, 2_000_000), oracle_c04, rule, 4);
        part.extra.insert("regression_replays".into(), serde_json::json!(n));
        report.add(part);
        for f in failures {
            report.fail(f);
        }
        // BB-large: real binary, queue pressure
        let pr = PropRun {
            ctx,
            engine: "BB-large",
            rule: "shape family {chain, fan-in, fan-out, k-ary tree, layered DAG, many roots, short chain with command inputs printing up to 200 KB} x size log-uniform in 2..=2000 (quick: ..=1000), trivial scripts, real binary; exit 0 and exactly one start/finish per closure target; hang = quiescence rule (also: zinoma and all its trivial children asleep without CPU progress over 4 samples); non-trivial = > 64 KiB of command output, >= 33 dependents/dependencies on one node (more than half a queue), or depth >= 50, or >= 33 roots; distinct = shape x floor(log2 size)",
            total_cases: ctx.tier.pick(64, 600),
            threads: ctx.tier.pick(8, 12).min(ctx.threads),
            max_shrink_iters: 12,
            stream: 104,
        };
        let max_size = ctx.tier.pick(1000, 2000);
        let (part, failures) = run_prop(&pr, || large_case(max_size), eval_large);
        report.add(part);
        for f in failures {
            report.fail(f);
        }
    }
    report.finish()
}

fn bb_replays(ctx: &Ctx, report: &mut Report) -> u64 {
    let mut n = 0;
    for path in replay_files(ctx) {
        let v = match read_replay(&path) {
            Ok(v) => v,
            Err(e) => {
                report.infra_errors.push(e);
                continue;
            }
        };
        let r = &v["replay"];
        if r["engine"].as_str().is_some_and(|e| e.starts_with("BB-cfg-")) {
            match replay_projset_bb(r) {
                Ok(res) => {
                    n += 1;
                    if let Some(msg) = res.violation {
                        println!("  replay {} still fails: {}", path.display(), msg);
                        report.fail(Failure {
                            message: msg,
                            signature: res.signature.unwrap_or_default(),
                            replay: res.replay,
                        });
                    }
                }
                Err(e) => report.infra_errors.push(e),
            }
        }
        if r["engine"].as_str().is_some_and(|e| e.starts_with("BBINC-")) {
            match replay_inc_bb(r) {
                Ok(res) => {
                    n += 1;
                    if let Some(msg) = res.violation {
                        println!("  replay {} still fails: {}", path.display(), msg);
                        report.fail(Failure {
                            message: msg,
                            signature: res.signature.unwrap_or_default(),
                            replay: res.replay,
                        });
                    }
                }
                Err(e) => report.infra_errors.push(e),
            }
        }
        if r["engine"] == "BB-c17wide" {
            match super::bb_c03w::replay_antichain(r) {
                Ok(res) => {
                    n += 1;
                    if let Some(msg) = res.violation {
                        println!("  replay {} still fails: {}", path.display(), msg);
                        report.fail(Failure {
                            message: msg,
                            signature: res.signature.unwrap_or_default(),
                            replay: res.replay,
                        });
                    }
                }
                Err(e) => report.infra_errors.push(e),
            }
        }
        if r["engine"] == "BB-wide" {
            match super::bb_c03w::replay_wide(r) {
                Ok(res) => {
                    n += 1;
                    if let Some(msg) = res.violation {
                        println!("  replay {} still fails: {}", path.display(), msg);
                        report.fail(Failure {
                            message: msg,
                            signature: res.signature.unwrap_or_default(),
                            replay: res.replay,
                        });
                    }
                }
                Err(e) => report.infra_errors.push(e),
            }
        }
        if r["engine"] == "BB-c11w" {
            match replay_c11w(r) {
                Ok(res) => {
                    n += 1;
                    if let Some(msg) = res.violation {
                        println!("  replay {} still fails: {}", path.display(), msg);
                        report.fail(Failure {
                            message: msg,
                            signature: res.signature.unwrap_or_default(),
                            replay: res.replay,
                        });
                    }
                }
                Err(e) => report.infra_errors.push(e),
            }
        }
        if r["engine"] == "BB-c16" {
            match replay_c16b(r) {
                Ok(res) => {
                    n += 1;
                    if let Some(msg) = res.violation {
                        println!("  replay {} still fails: {}", path.display(), msg);
                        report.fail(Failure {
                            message: msg,
                            signature: res.signature.unwrap_or_default(),
                            replay: res.replay,
                        });
                    }
                }
                Err(e) => report.infra_errors.push(e),
            }
        }
        if r["engine"] == "BB-c17hub" {
            if let Ok(c) = serde_json::from_value::<HubCase>(r["case"].clone()) {
                n += 1;
                let res = eval_hub(&c);
                if let Some(msg) = res.violation {
                    println!("  replay {} still fails: {}", path.display(), msg);
                    report.fail(Failure {
                        message: msg,
                        signature: res.signature.unwrap_or_default(),
                        replay: res.replay,
                    });
                }
            }
        }
        if r["engine"] == "BB-c18" {
            match replay_c18(r) {
                Ok(res) => {
                    n += 1;
                    if let Some(msg) = res.violation {
                        println!("  replay {} still fails: {}", path.display(), msg);
                        report.fail(Failure {
                            message: msg,
                            signature: res.signature.unwrap_or_default(),
                            replay: res.replay,
                        });
                    }
                }
                Err(e) => report.infra_errors.push(e),
            }
        }
        if r["engine"] == "BB-c05" {
            match replay_c05(r) {
                Ok(res) => {
                    n += 1;
                    if let Some(msg) = res.violation {
                        println!("  replay {} still fails: {}", path.display(), msg);
                        report.fail(Failure {
                            message: msg,
                            signature: res.signature.unwrap_or_default(),
                            replay: res.replay,
                        });
                    }
                }
                Err(e) => report.infra_errors.push(e),
            }
        }
        if r["engine"] == "BB-c12" {
            match replay_c12(r) {
                Ok(res) => {
                    n += 1;
                    if let Some(msg) = res.violation {
                        println!("  replay {} still fails: {}", path.display(), msg);
                        report.fail(Failure {
                            message: msg,
                            signature: res.signature.unwrap_or_default(),
                            replay: res.replay,
                        });
                    }
                }
                Err(e) => report.infra_errors.push(e),
            }
        }
        if r["engine"] == "BB-c10" {
            match replay_c10(r) {
                Ok(res) => {
                    n += 1;
                    if let Some(msg) = res.violation {
                        println!("  replay {} still fails: {}", path.display(), msg);
                        report.fail(Failure {
                            message: msg,
                            signature: res.signature.unwrap_or_default(),
                            replay: res.replay,
                        });
                    }
                }
                Err(e) => report.infra_errors.push(e),
            }
        }
        if r["engine"] == "BB" {
            match replay_bb(r) {
                Ok(Some(res)) => {
                    n += 1;
                    if let Some(msg) = res.violation {
                        println!("  replay {} still fails: {}", path.display(), msg);
                        report.fail(Failure {
                            message: msg,
                            signature: res.signature.unwrap_or_default(),
                            replay: res.replay,
                        });
                    }
                }
                Ok(None) => {}
                Err(e) => report.infra_errors.push(e),
            }
        }
        if r["engine"] == "BB-large" {
            let c = LargeCase {
                shape: r["shape"].as_u64().unwrap_or(0) as u8,
                size: r["size"].as_u64().unwrap_or(2) as usize,
                extra: r["extra"].as_u64().unwrap_or(0) as u8,
            };
            n += 1;
            let res = eval_large(&c);
            if let Some(msg) = res.violation {
                println!("  replay {} still fails: {}", path.display(), msg);
                report.fail(Failure {
                    message: msg,
                    signature: res.signature.unwrap_or_default(),
                    replay: res.replay,
                });
            }
        }
    }
    n
}

fn c08(ctx: &Ctx) -> i32 {
    let mut report = Report::new(ctx, "exploration");
    let params = SimParams {
        max_n: ctx.tier.pick(10, 14),
        watch: 0,
        failures: 1,
        early_term: 1,
        withhold: 1,
        max_notices: 0,
        sched_len: ctx.tier.pick(120, 300),
    };
    let rule = "generated graph with shared dependencies x requested multiset (duplicates, dependency together with dependent) x schedule (one-shot; some scripts fail, some runs interrupted); exactly-once multiset over the closure on natural success, at-most-once always; non-trivial = some target has >= 2 requesters; distinct = shape classes x (kind, #requests before completion, #after) per shared target";
    sim_check(ctx, &mut report, params, ctx.tier.pick(150_000, 2_000_000), oracle_c08, rule, 8);
    bb_replays(ctx, &mut report);
    bb_part(ctx, &mut report, "c08", BbParams { max_n: 9, failures: true, services: true, rendezvous: false }, ctx.tier.pick(64, 400),
        "same, every build declares an input directory and rewrites a file in the input directory of one of its finished dependencies while it runs: a one-shot run watches nothing, so no target may run twice", 308);
    bb_part(ctx, &mut report, "c08", BbParams { max_n: 8, failures: true, services: true, rendezvous: false }, ctx.tier.pick(96, 600),
        "real binary, generated graphs, duplicate / both-spelling requests: no target started twice, nothing outside the closure started, exit 0 => exactly one start+finish per closure build; non-trivial = a target with >= 2 requesters", 108);
    report.finish()
}

fn sim_check(
    ctx: &Ctx,
    report: &mut Report,
    params: SimParams,
    cases: u32,
    oracle: Oracle,
    rule: &str,
    stream: u64,
) {
    let n = sim_replays(ctx, report, oracle);
    if ctx.replay.is_none() {
        let (mut part, failures) = run_sim(ctx, params, cases, oracle, rule, stream);
        part.extra
            .insert("regression_replays".into(), serde_json::json!(n));
        report.add(part);
        for f in failures {
            report.fail(f);
        }
    }
}

fn c01(ctx: &Ctx) -> i32 {
    let mut report = Report::new(ctx, "exploration");
    report.assume("a target's execution starts when its build cycle begins (incremental check), which is when the start condition is evaluated; readiness of dependencies is also checked at the script spawn");
    report.assume("'latest word' only counts messages actually delivered to the target (forwarded by the harness)");
    let params = SimParams {
        max_n: ctx.tier.pick(10, 14),
        watch: 1,
        failures: 1,
        early_term: 1,
        withhold: 1,
        max_notices: 6,
        sched_len: ctx.tier.pick(200, 400),
    };
    let rule = "generated graph x requested subset x watch on/off x failures x schedule with file-change notices; at every start: every dependency (aggregates expanded) finished / started before, and latest delivered word of every direct dependency per kind is Ok; aggregates only say Ok while all their dependencies' latest word is Ok; non-trivial = >= 2 dependencies, or dependency through a non-empty aggregate, or (watch) restarted / a dependency notice between two starts; distinct = shape classes x feature set x number of starts";
    sim_check(ctx, &mut report, params, ctx.tier.pick(200_000, 3_000_000), oracle_c01, rule, 1);
    bb_replays(ctx, &mut report);
    bb_part(ctx, &mut report, "c01", BbParams { max_n: 8, failures: true, services: true, rendezvous: false }, ctx.tier.pick(64, 400),
        "same, with dependencies whose script exits non-zero or whose shell is killed by a signal: a dependency that did not finish successfully (no finish line) must never be followed by a start of its dependents", 301);
    bb_part(ctx, &mut report, "c01", BbParams { max_n: 8, failures: false, services: true, rendezvous: false }, ctx.tier.pick(96, 600),
        "real binary on generated graphs with scripts sleeping 0-40 ms; in the trace every start of T is preceded by the finish line of each build dependency (aggregates expanded) and each service dependency was forked no later than T (kernel start ticks); non-trivial = >= 2 dependencies or a dependency through an aggregate", 101);
    report.finish()
}

fn c06(ctx: &Ctx) -> i32 {
    let mut report = Report::new(ctx, "exploration");
    report.assume("SIM replaces the incremental step by a version-capture model (skip iff the record made at the start of the last completed run equals the current versions); the real skip logic is exercised by the INC/BB parts");
    let params = SimParams {
        max_n: ctx.tier.pick(7, 12),
        watch: 2,
        failures: 1,
        early_term: 0,
        withhold: 1,
        max_notices: 6,
        sched_len: ctx.tier.pick(250, 500),
    };
    let rule = "watch mode: generated graph x schedule x up to 6 file-change notices (idle, mid-run, in a dependency while the dependent runs, bursts) plus watcher notices caused by producers' outputs; at final quiescence every target not blocked by a failure is up to date w.r.t. the version model, its last execution began after its dependencies' last runs ended and after its last notice; no run invalidated in flight is acknowledged; non-trivial = a notice landed while the target or a dependency/dependent had a run in flight; distinct = shape classes x placement classes x #notices";
    sim_check(ctx, &mut report, params, ctx.tier.pick(150_000, 3_000_000), oracle_c06, rule, 6);
    // black-box part: real binary, real inotify
    report.assume("BB: placements by rendezvous files (scripts hold on request, before or after reading their inputs); one 300 ms grace after an in-flight change (inotify latency is far below); idle = no child, threads asleep, CPU and trace unchanged over 3 samples of 150 ms");
    let open = report.open_signatures();
    let exclude = open.iter().any(|s| s == "bb-c06:snapshot-after-script");
    // regression replays and the live reproduction of open findings (never excluded)
    for path in replay_files(ctx) {
        if let Ok(v) = read_replay(&path) {
            let r = &v["replay"];
            if r["engine"] == "BB-c06" {
                match replay_c06(r, false) {
                    Ok(res) => {
                        if let Some(msg) = res.violation {
                            let sig = res.signature.clone().unwrap_or_default();
                            if report.is_known(&sig).is_none() {
                                println!("  replay {} fails: {}", path.display(), msg);
                            }
                            report.fail(Failure { message: msg, signature: sig, replay: res.replay });
                        }
                    }
                    Err(e) => report.infra_errors.push(e),
                }
            }
        }
    }
    if ctx.replay.is_none() {
        let pr = PropRun {
            ctx,
            engine: "BB",
            rule: "real binary with --watch and real inotify on generated graphs (n <= 4) of copy-style scripts (out_T = in_T | out of its dependencies), started on a clean or a built tree; 0-4 steps: idle change, burst, change landing while a run of the affected target or of a dependent is held (before or after the held script read its inputs); at quiescence every out_T must equal f(final inputs); start-up must not exit; non-trivial = a change landed while a run was in flight, or the tree was clean at start-up; distinct = placement classes x graph size x edges",
            total_cases: ctx.tier.pick(24, 240),
            threads: 6.min(ctx.threads),
            max_shrink_iters: 16,
            stream: 106,
        };
        let (mut part, failures) = run_prop(&pr, c06_case, |c: &C06Case| eval_c06(c, exclude));
        part.extra.insert("known_finding_placements_excluded".into(), serde_json::json!(part.classes.get("excluded-known-finding-placement").copied().unwrap_or(0)));
        report.add(part);
        for f in failures {
            report.fail(f);
        }
    }
    report.finish()
}

fn c07(ctx: &Ctx) -> i32 {
    let mut report = Report::new(ctx, "exploration");
    let params = SimParams {
        max_n: ctx.tier.pick(10, 14),
        watch: 1,
        failures: 2,
        early_term: 1,
        withhold: 1,
        max_notices: 4,
        sched_len: ctx.tier.pick(200, 400),
    };
    let rule = "generated graph x failing subset (non-zero exit, cannot launch, fails once) x watch on/off x schedule; one-shot: run returns Err naming an actually failed target; nothing depending on a failing target ever starts; watch: run keeps going, notice after failure re-runs it; non-trivial = the failing target has a dependent and a sibling was running when it failed";
    sim_check(ctx, &mut report, params, ctx.tier.pick(200_000, 3_000_000), oracle_c07, rule, 7);
    bb_replays(ctx, &mut report);
    bb_part(ctx, &mut report, "c07", BbParams { max_n: 8, failures: true, services: true, rendezvous: false }, ctx.tier.pick(96, 600),
        "real binary, generated graphs with failing scripts (exit 1,2,3,126,127,130,255): exit status non-zero, stderr names a target that failed, no target above a failing one is started; non-trivial = a failing target started and has a dependent", 107);
    report.finish()
}

fn c11(ctx: &Ctx) -> i32 {
    let mut report = Report::new(ctx, "exploration");
    let params = SimParams {
        max_n: ctx.tier.pick(10, 14),
        watch: 1,
        failures: 0,
        early_term: 0,
        withhold: 1,
        max_notices: 6,
        sched_len: ctx.tier.pick(200, 400),
    };
    let rule = "generated graph mixing services/builds/aggregates x requested subset x schedule (one-shot) and x notices restarting services (watch); keep-alive iff a service stands behind a requested root; service started before and alive during dependent builds; never two live instances; stopped at shutdown; non-trivial = service behind an aggregate / requested and depended on / needed by a build / restarted; distinct = shape classes x feature set x #services";
    sim_check(ctx, &mut report, params, ctx.tier.pick(200_000, 3_000_000), oracle_c11, rule, 11);
    bb_replays(ctx, &mut report);
    bb_part(ctx, &mut report, "c11", BbParams { max_n: 8, failures: true, services: true, rendezvous: false }, ctx.tier.pick(64, 400),
        "same, with failing build scripts: services that are only dependencies must be stopped when zinoma exits on the error path too (no marked process left); keep-alive verdicts are only judged when nothing fails", 311);
    bb_part(ctx, &mut report, "c11", BbParams { max_n: 8, failures: false, services: true, rendezvous: false }, ctx.tier.pick(96, 600),
        "real binary: services are exec-sleep shells, builds check kill -0 of the services they depend on at start and end; zinoma alive-and-idle after all builds iff a service stands behind a requested root; SIGTERM then exits < 5 s with no marked process left; non-trivial = service behind aggregate / requested and depended on / needed by a build", 111);
    if ctx.replay.is_none() {
        let pr = PropRun {
            ctx,
            engine: "BB-watch",
            rule: "real binary with --watch: a requested service (alone / depending on a build / consuming the build's output / behind an aggregate) x 1-4 atomic changes (own input, the build's input, an unrelated file); at every idle point exactly one live instance, and it is the one started last; a relevant change restarts it with the current input, an unrelated change does not; nothing left after SIGTERM; non-trivial = at least one expected restart; distinct = layout x edit kinds x #restarts",
            total_cases: ctx.tier.pick(24, 300),
            threads: 6.min(ctx.threads),
            max_shrink_iters: 20,
            stream: 211,
        };
        let (part, failures) = run_prop(&pr, c11w_case, eval_c11w);
        report.add(part);
        for f in failures {
            report.fail(f);
        }
    }
    report.finish()
}

fn c17(ctx: &Ctx) -> i32 {
    let mut report = Report::new(ctx, "exploration");
    let params = SimParams {
        max_n: ctx.tier.pick(10, 14),
        watch: 0,
        failures: 0,
        early_term: 0,
        withhold: 2,
        max_notices: 0,
        sched_len: ctx.tier.pick(200, 400),
    };
    let rule = "one-shot; scripts finish only when nothing else is enabled (antichains stay running); at every message-quiescent point a requested target with all dependencies ready has begun; a later start of such a target is a wait on a non-dependency; non-trivial = >= 2 scripts running concurrently with at least one of them having dependencies; distinct = shape classes x antichain size";
    sim_check(ctx, &mut report, params, ctx.tier.pick(150_000, 2_000_000), oracle_c17, rule, 17);
    bb_replays(ctx, &mut report);
    bb_part(ctx, &mut report, "c17", BbParams { max_n: 10, failures: false, services: true, rendezvous: true }, ctx.tier.pick(48, 400),
        "real binary: a maximal antichain (2..8) of mutually independent build targets whose scripts wait for each other's marker files (20 s deadline): completes iff they all overlap; non-trivial = antichain >= 2 with a member that has dependencies", 117);
    if ctx.replay.is_none() {
        let pr = PropRun {
            ctx,
            engine: "BB-hub",
            rule: "real binary, second invocation over a built tree: a hub target with 34-90 dependents whose up-to-date check takes 2 s (slow cmd_stdout input), next to an unrelated chain u1 (0.5 s) -> u2; u2 must start while the hub's check is still running (marker file), i.e. message routing for unrelated targets is never held up by one target's check",
            total_cases: ctx.tier.pick(4, 32),
            threads: 4.min(ctx.threads),
            max_shrink_iters: 3,
            stream: 317,
        };
        let (part, failures) = run_prop(&pr, hub_case, eval_hub);
        report.add(part);
        for f in failures {
            report.fail(f);
        }
        let max = ctx.tier.pick(40, 120);
        let pr = PropRun {
            ctx,
            engine: "BB-wide",
            rule: "real binary: 9..max mutually independent builds plus 0-4 independent services requested together, every script waiting (8 s bound) until all the others have started too, under 1/2/4/default runtime threads: they must all be in progress at the same time (no cap on the number of concurrent targets)",
            total_cases: ctx.tier.pick(12, 120),
            threads: 3.min(ctx.threads),
            max_shrink_iters: 8,
            stream: 318,
        };
        let (part, failures) = run_prop(&pr, || super::bb_c03w::antichain_case(max), super::bb_c03w::eval_antichain);
        report.add(part);
        for f in failures {
            report.fail(f);
        }
    }
    report.finish()
}

fn c20(ctx: &Ctx) -> i32 {
    let mut report = Report::new(ctx, "exploration");
    report.assume("the relation is on sets and verdicts, never on orders; with a failing member only the verdict (and that the error names a failing member) is compared, since which siblings ran before the failure is schedule-dependent");
    // replays
    for path in replay_files(ctx) {
        if let Ok(v) = read_replay(&path) {
            let r = &v["replay"];
            if r["engine"] == "SIM-c20" {
                if let Ok(case) = serde_json::from_value::<super::sim::SimCase>(r["case"].clone()) {
                    let res = eval_c20_sim(&case);
                    if let Some(msg) = res.violation {
                        println!("  replay {} still fails: {}", path.display(), msg);
                        report.fail(Failure { message: msg, signature: res.signature.unwrap_or_default(), replay: res.replay });
                    }
                }
            } else if r["engine"] == "BB-c20wide" {
                if let Ok(res) = super::bb_c20w::replay_wide_agg(r) {
                    if let Some(msg) = res.violation {
                        println!("  replay {} still fails: {}", path.display(), msg);
                        report.fail(Failure { message: msg, signature: res.signature.unwrap_or_default(), replay: res.replay });
                    }
                }
            } else if r["engine"] == "BB-c20" {
                if let Ok(case) = serde_json::from_value::<BbCase>(r["case"].clone()) {
                    let res = eval_c20_bb(&case);
                    if let Some(msg) = res.violation {
                        println!("  replay {} still fails: {}", path.display(), msg);
                        report.fail(Failure { message: msg, signature: res.signature.unwrap_or_default(), replay: res.replay });
                    }
                }
            }
        }
    }
    if ctx.replay.is_none() {
        let params = SimParams {
            max_n: ctx.tier.pick(8, 12),
            watch: 0,
            failures: 1,
            early_term: 0,
            withhold: 1,
            max_notices: 0,
            sched_len: ctx.tier.pick(150, 300),
        };
        let pr = PropRun {
            ctx,
            engine: "SIM",
            rule: "metamorphic pairs on controlled schedules: graph containing an aggregate G (nested, empty, over builds / services / both, optionally with a failing member) x other requested targets X x schedule; run A requests {G} u X, run B requests deps(G) u X; same completed / skipped / service sets, same verdict, same keep-alive; non-trivial = G nested or empty or with a service behind it; distinct = G-shape classes x graph classes",
            total_cases: ctx.tier.pick(60_000, 1_000_000),
            threads: ctx.threads,
            max_shrink_iters: 3000,
            stream: 20,
        };
        let (part, failures) = run_prop(&pr, || super::sim::sim_case(params), eval_c20_sim);
        report.add(part);
        for f in failures {
            report.fail(f);
        }
        let pr = PropRun {
            ctx,
            engine: "BB",
            rule: "same relation through the real binary on two copies of the generated project: exit status class, set of finished scripts, alive-and-idle verdict (and service set when kept alive); non-trivial as above",
            total_cases: ctx.tier.pick(24, 300),
            threads: 8.min(ctx.threads),
            max_shrink_iters: 30,
            stream: 120,
        };
        let (part, failures) = run_prop(&pr, || bb_case(BbParams { max_n: 8, failures: false, services: true, rendezvous: false }), eval_c20_bb);
        report.add(part);
        for f in failures {
            report.fail(f);
        }
        let max = ctx.tier.pick(400, 1500);
        let pr = PropRun {
            ctx,
            engine: "BB-wide",
            rule: "one aggregate over 2..max members (log-uniform; builds, empty aggregates, aggregates over a shared build; optionally one failing member) requested through the real binary against the same members requested directly, under 1/2/4/default runtime threads: both exit or neither, same verdict, same finished scripts; non-trivial = more than 32 members (more acknowledgements than one inbox holds)",
            total_cases: ctx.tier.pick(24, 240),
            threads: 6.min(ctx.threads),
            max_shrink_iters: 12,
            stream: 121,
        };
        let (part, failures) = run_prop(&pr, || super::bb_c20w::wide_agg_case(max), super::bb_c20w::eval_wide_agg);
        report.add(part);
        for f in failures {
            report.fail(f);
        }
    }
    report.finish()
}

fn bb_part(
    ctx: &Ctx,
    report: &mut Report,
    name: &'static str,
    params: BbParams,
    cases: u32,
    rule: &str,
    stream: u64,
) {
    if ctx.replay.is_some() {
        return;
    }
    let pr = PropRun {
        ctx,
        engine: "BB",
        rule,
        total_cases: cases,
        threads: 8.min(ctx.threads),
        max_shrink_iters: 40,
        stream,
    };
    let (part, failures) = run_prop(&pr, || bb_case(params), |c: &BbCase| eval_bb(c, name));
    report.add(part);
    for f in failures {
        report.fail(f);
    }
}

fn c10(ctx: &Ctx) -> i32 {
    let mut report = Report::new(ctx, "exploration");
    report.assume("exit latency bound of 5 s after the signal / the failing script's own timestamp: the remaining scripts sleep for 28 h, observed latencies are milliseconds");
    report.assume("scripts are in exec form (the spawned shell is the process), as the statement speaks of the shells zinoma spawned");
    bb_replays(ctx, &mut report);
    if ctx.replay.is_none() {
        let pr = PropRun {
            ctx,
            engine: "BB",
            rule: "generated graph (n<=8, or fan-in / many-roots of 100..700 targets) x long-running / quick / failing scripts and services x mode {one-shot, watch} x exit cause {SIGINT, SIGTERM, failing target, normal completion} x instant (after k scripts/services are up, by rendezvous on marker files; or after a generated delay; double signal); exit latency <= 5 s and no process carrying the run's marker alive 200 ms after exit; non-trivial = >= 1 spawned process alive at the instant of the event, or a large graph in flight; distinct = cause x mode x k x #alive x double x large",
            total_cases: ctx.tier.pick(96, 1500),
            threads: 8.min(ctx.threads),
            max_shrink_iters: 8,
            stream: 110,
        };
        let (part, failures) = run_prop(&pr, c10_case, eval_c10);
        report.add(part);
        for f in failures {
            report.fail(f);
        }
    }
    report.finish()
}

fn c12(ctx: &Ctx) -> i32 {
    let mut report = Report::new(ctx, "exploration");
    report.assume("declared output paths are never themselves symlinks and no regular file is named .zinoma (the statement does not say what those denote)");
    report.assume("a symlink entry to a regular file whose own name matches an extension filter may be removed or kept (the referent must survive either way)");
    bb_replays(ctx, &mut report);
    if ctx.replay.is_none() {
        let pr = PropRun {
            ctx,
            engine: "BB",
            rule: "1-3 projects x 1-5 build targets with generated output declarations (plain / extension-filtered paths: directory, file, missing, nested, overlapping the input) x planted trees (matching, non-matching, nested, .zinoma inside outputs, symlinks to precious files/dirs outside, dangling links, other targets' state) x {--clean, --clean T... (optionally after a real build)}; two-sided recursive snapshot diff against the harness-computed expected-deleted set; non-trivial = a survivor class adjacent to a deleted entry; distinct = invocation class x survivor-class set",
            total_cases: ctx.tier.pick(2400, 30_000),
            threads: ctx.threads,
            max_shrink_iters: 200,
            stream: 112,
        };
        let (part, failures) = run_prop(&pr, c12_case, eval_c12);
        report.add(part);
        for f in failures {
            report.fail(f);
        }
    }
    report.finish()
}

fn inc_replays(ctx: &Ctx, report: &mut Report) -> u64 {
    let mut n = 0;
    let open = report.open_signatures();
    for path in replay_files(ctx) {
        let v = match read_replay(&path) {
            Ok(v) => v,
            Err(e) => {
                report.infra_errors.push(e);
                continue;
            }
        };
        let r = &v["replay"];
        let engine = r["engine"].as_str().unwrap_or("");
        let res = match engine {
            "INC-c09" | "INC-c19" => {
                let ps: Result<ProjSet, _> = serde_json::from_value(r["projset"].clone());
                let req: Vec<u8> = serde_json::from_value(r["req"].clone()).unwrap_or_default();
                match ps {
                    Ok(ps) => {
                        let c = C09Case { ps, req };
                        Some(if engine == "INC-c09" { eval_c09(&c) } else { eval_c19(&c) })
                    }
                    Err(e) => {
                        report.infra_errors.push(format!("{}: {}", path.display(), e));
                        None
                    }
                }
            }
            "INC-c02" | "INC-c03" | "INC-c13" => match replay_inc(r) {
                Ok(res) => Some(res),
                Err(e) => {
                    report.infra_errors.push(e);
                    None
                }
            },
            "INC-c16" => match replay_c16(r) {
                Ok(res) => Some(res),
                Err(e) => {
                    report.infra_errors.push(e);
                    None
                }
            },
            "INC-c15" => match replay_c15(r) {
                Ok(res) => Some(res),
                Err(e) => {
                    report.infra_errors.push(e);
                    None
                }
            },
            "INC-c14" => match serde_json::from_value::<ProjSet>(r["projset"].clone()) {
                Ok(ps) => Some(eval_c14_structured(&ps, &open)),
                Err(e) => {
                    report.infra_errors.push(format!("{}: {}", path.display(), e));
                    None
                }
            },
            _ => None,
        };
        if let Some(res) = res {
            n += 1;
            if let Some(msg) = res.violation {
                println!("  replay {} fails: {}", path.display(), msg);
                report.fail(Failure {
                    message: msg,
                    signature: res.signature.unwrap_or_default(),
                    replay: res.replay,
                });
            }
        }
    }
    n
}

fn c09(ctx: &Ctx) -> i32 {
    let mut report = Report::new(ctx, "exploration");
    report.assume("reference resolver (reachability + colouring cycle test) written from the statement; only the accept/reject verdict and the resolved set are compared, not which error is reported first");
    inc_replays(ctx, &mut report);
    if ctx.replay.is_none() {
        let pr = PropRun {
            ctx,
            engine: "INC",
            rule: "1-4 project files with overlapping target names, dependencies / X.output references (bare, qualified, to unknown targets or projects, closing cycles, .output of services/aggregates) x requested subset; real loader + resolver vs reference closure; valid => same key set, project directory and dependency lists; invalid (reachable defect) => Err; unreachable defects must not matter; non-trivial = cross-project / shared revisit / cycle / unknown project / output of non-build / defect present but unreachable; distinct = class set x #projects",
            total_cases: ctx.tier.pick(30_000, 400_000),
            threads: ctx.threads,
            max_shrink_iters: 2000,
            stream: 109,
        };
        let (part, failures) = run_prop(&pr, c09_case, eval_c09);
        report.add(part);
        for f in failures {
            report.fail(f);
        }
    }
    cfg_bb_part(ctx, &mut report, "c09", 0, true, ctx.tier.pick(40, 600),
        "same project sets through the real binary with sentinel scripts, pre-existing outputs and (one in three) --clean: reachable defect => exit != 0, no script ran, tree snapshot unchanged (nothing cleaned), no hang; valid => exactly the build targets of the reference closure ran once, each in its own project directory", 209);
    report.finish()
}

fn c19(ctx: &Ctx) -> i32 {
    let mut report = Report::new(ctx, "exploration");
    inc_replays(ctx, &mut report);
    if ctx.replay.is_none() {
        let pr = PropRun {
            ctx,
            engine: "INC",
            rule: "1-4 projects whose targets draw names from a 5-name alphabet (so equal names occur in several projects), named/unnamed root x requested spellings (bare, qualified, both) x bare/qualified references; accepted-name set equality, both spellings => one id, bare reference => target of the same project (checked through the resolved project directory); non-trivial = a target name shared by >= 2 projects is requested or referenced bare; distinct = class set x #shared names",
            total_cases: ctx.tier.pick(30_000, 400_000),
            threads: ctx.threads,
            max_shrink_iters: 2000,
            stream: 119,
        };
        let (part, failures) = run_prop(&pr, c19_case, eval_c19);
        report.add(part);
        for f in failures {
            report.fail(f);
        }
    }
    cfg_bb_part(ctx, &mut report, "c19", 0, false, ctx.tier.pick(240, 2000),
        "real binary: requesting root targets under both spellings runs them once; equal target names in several projects each run in their own directory; ran set == reference closure", 219);
    report.finish()
}

fn c14(ctx: &Ctx) -> i32 {
    let mut report = Report::new(ctx, "exploration");
    report.assume("independent validator over the generated AST (names, kinds, unknown keys, import keys, unique project names); only accept/reject and the meaning of names are compared, not error texts");
    inc_replays(ctx, &mut report);
    if ctx.replay.is_none() {
        let open = report.open_signatures();
        let pr = PropRun {
            ctx,
            engine: "INC",
            rule: "project sets from a grammar of the documented schema with 0-3 defects of known verdict (unknown key at project/target/resource level, two kinds, no kind, bad project/target name incl. Unicode word characters, wrong import key, unnamed import, import cycle, self-import, duplicate project name); loader verdict vs independent validator; on accept the meaning of every accepted name (project directory, kind, dependencies, script) is identical over 8 loads; non-trivial = >= 1 defect or >= 2 projects; distinct = defect-class set",
            total_cases: ctx.tier.pick(15_000, 200_000),
            threads: ctx.threads,
            max_shrink_iters: 2000,
            stream: 114,
        };
        let (part, failures) = run_prop(&pr, c14_case, |ps: &ProjSet| eval_c14_structured(ps, &open));
        report.add(part);
        for f in failures {
            report.fail(f);
        }
        // coverage-guided byte-level fuzzing of the loader (oracle inside the target)
        run_fuzz(ctx, &mut report, FuzzSpec {
            target: "yaml_config",
            runs: ctx.tier.pick(40_000, 4_000_000),
            max_len: 2048,
            dict: Some(verif_dir().join("corpus/yaml.dict")),
            corpus_seed_dir: verif_dir().join("corpus/yaml_config"),
            extra_seeds: vec![],
            jobs: ctx.tier.pick(2, 8),
            rule: "libFuzzer (coverage-guided, dictionary of schema keys, corpus = every fixture's zinoma.yml) on arbitrary bytes used as the root zinoma.yml next to an importable sub project: no panic; two loads agree on verdict and on the meaning of every accepted name; accepted names obey the documented syntax; non-trivial = corpus entries that are well-formed YAML; distinct = corpus entries kept by the fuzzer",
            nontrivial: |b| std::str::from_utf8(b).is_ok() && serde_yaml::from_slice::<serde_yaml::Value>(b).is_ok(),
        });
    } else if let Some(p) = &ctx.replay {
        if read_replay(p).is_err() {
            replay_raw(ctx, &mut report, "yaml_config", p);
        }
    }
    cfg_bb_part(ctx, &mut report, "c14", 1, false, ctx.tier.pick(30, 400),
        "same generated project sets (with schema defects) through the real binary in 5 fresh processes each: identical verdict and identical set of scripts run; on rejection exit != 0, nothing ran, tree unchanged, no panic marker / abort", 214);
    report.finish()
}

fn c15(ctx: &Ctx) -> i32 {
    let mut report = Report::new(ctx, "exploration");
    report.assume("MUST = regular files (not following links) at/below the listed paths, outside .zinoma directories, name ending with a normalised extension; symlink entries to regular files whose own name matches MAY be denoted (zinoma follows the link for the type test)");
    report.assume("listed paths are never symlinks, never inside or named .zinoma, and valid UTF-8 (they are YAML strings)");
    inc_replays(ctx, &mut report);
    if ctx.replay.is_none() {
        let pr = PropRun {
            ctx,
            engine: "INC",
            rule: "generated trees (depth <= 4; names: plain, dot-files, multi-dot, name == extension, suffix without dot, non-UTF-8, newline, ~ / .swp; .zinoma at any depth; symlinks to files/dirs inside, outside, dangling) x 1-2 files resources (1-4 listed paths incl. '.', single files, missing; 14 extension declarations) through the real loader (normalisation) and list_files_in_paths / list_files_in_resources; MUST subset-of result subset-of MAY vs the reference walker; watcher predicate on every path; non-trivial = depth >= 2 and one of {.zinoma inside, multi-dot, non-UTF-8, name==extension, link to dir, missing path}; distinct = feature set x extension declarations",
            total_cases: ctx.tier.pick(20_000, 300_000),
            threads: ctx.threads,
            max_shrink_iters: 3000,
            stream: 115,
        };
        let (part, failures) = run_prop(&pr, c15_case, eval_c15);
        report.add(part);
        for f in failures {
            report.fail(f);
        }
    }
    if ctx.replay.is_none() {
        // "watching applies the same rule to the path of each event": the same declarations under
        // a real watcher, with two resources on one path (filtered + unfiltered, or two filters)
        install_panic_hook();
        let pr = PropRun {
            ctx,
            engine: "INC-watch",
            rule: "real TargetWatcher over a scratch tree where two files resources share one path (two different filters, or a filter and no filter): an event on a file denoted by either resource must invalidate the target, an event on a file denoted by neither must not (same barrier protocol as C16)",
            total_cases: ctx.tier.pick(400, 4000),
            threads: 12.min(ctx.threads),
            max_shrink_iters: 100,
            stream: 315,
        };
        let (part, failures) = run_prop(
            &pr,
            || {
                use proptest::prelude::*;
                c16_case().prop_map(|mut c| {
                    c.same_path = true;
                    if c.ext_b.is_none() {
                        c.ext_b = Some(if c.ext_a == 6 { 0 } else { 6 });
                    }
                    c
                })
            },
            eval_c16,
        );
        report.add(part);
        for f in failures {
            report.fail(f);
        }
    }
    report.finish()
}

fn inc_part(ctx: &Ctx, report: &mut Report, which: &'static str, neutral: bool, cases: u32, rule: &str, stream: u64) {
    bb_replays(ctx, report);
    if ctx.replay.is_some() {
        return;
    }
    {
        let pr = PropRun {
            ctx,
            engine: "BB",
            rule: "a sample of the same generated histories through the real binary (two invocations of `zinoma c` around the edits, run/skip read from script traces): covers the main -> actor -> incremental wiring",
            total_cases: ctx.tier.pick(24, 300),
            threads: 8.min(ctx.threads),
            max_shrink_iters: 40,
            stream: stream + 500,
        };
        let (part, failures) = run_prop(&pr, || inc_case(neutral), |c: &IncCase| eval_inc_bb(c, which));
        report.add(part);
        for f in failures {
            report.fail(f);
        }
    }
    if which != "c13" {
        let pr = PropRun {
            ctx,
            engine: "BB-wide",
            rule: "2-16 targets with declared inputs (optionally a command input, a declared output, half of them in an imported project) requested together through the real binary, their scripts finishing at the same moment (bounded rendezvous) so that all states are recorded concurrently, under 1/2/4/default runtime threads; then 1-2 untouched re-invocations (no script may run), an edit of a generated subset of inputs (exactly those scripts run), and a last untouched invocation; non-trivial = >= 4 targets finishing together; distinct = #targets x rendezvous x projects x #edited x runtime threads",
            total_cases: ctx.tier.pick(40, 400),
            threads: 4.min(ctx.threads),
            max_shrink_iters: 30,
            stream: stream + 700,
        };
        let (part, failures) = run_prop(&pr, super::bb_c03w::wide_case, |c: &super::bb_c03w::WideCase| super::bb_c03w::eval_wide(c, which));
        report.add(part);
        for f in failures {
            report.fail(f);
        }
    }
    let pr = PropRun {
        ctx,
        engine: "INC",
        rule,
        total_cases: cases,
        threads: ctx.threads,
        max_shrink_iters: 200,
        stream,
    };
    let (part, failures) = run_prop(&pr, || inc_case(neutral), |c: &IncCase| eval_inc(c, which));
    report.add(part);
    for f in failures {
        report.fail(f);
    }
}

fn c02(ctx: &Ctx) -> i32 {
    let mut report = Report::new(ctx, "exploration");
    report.assume("reference snapshot model: independent walker (std read_dir, own .zinoma pruning and suffix rule) + stdout of each declared command in its declaring directory; files only (no symlinks) in these trees; distinct modification times forced with utimensat");
    inc_replays(ctx, &mut report);
    inc_part(ctx, &mut report, "c02", false, ctx.tier.pick(6000, 60_000),
        "declared resources (src dir with 14 extension declarations, optional second files resource with a single file, optional cmd_stdout, optional outputs, optional resources inherited through X.output from a producer in the same / an imported project, identical command text and relative paths in both projects) x generated tree x 1-6 edits (20 operation kinds: same-length rewrite, rewrite with restored mtime, append, truncate, touch, delete, rename within / out, create matching / non-matching, command source edits, look-alike edits, edits under .zinoma, byte flips beyond 1 KiB / 64 KiB, output edits, producer output edits) between two calls of the real incremental::run; Skipped => model says set equal, each file mtime-or-content equal, each command same text; non-trivial = the model snapshot changed; distinct = layout x operation set x #resources",
        102);
    report.finish()
}

fn c03(ctx: &Ctx) -> i32 {
    let mut report = Report::new(ctx, "exploration");
    report.assume("premise 'state could be computed and stored' checked by the harness: all denoted paths valid UTF-8, every declared command exits 0");
    inc_replays(ctx, &mut report);
    inc_part(ctx, &mut report, "c03", true, ctx.tier.pick(4000, 40_000),
        "same layouts as C02 with histories that leave every declared resource unchanged (touch, files created outside the denoted set, look-alike edits in the other project, edits under .zinoma, no-ops) and 2-4 consecutive invocations of the real incremental::run: unchanged + storable => Skipped and the script future never polled; non-trivial = >= 2 resources / multi-project / colliding command text / >= 3 invocations",
        103);
    report.finish()
}

fn c13(ctx: &Ctx) -> i32 {
    let mut report = Report::new(ctx, "exploration");
    inc_replays(ctx, &mut report);
    inc_part(ctx, &mut report, "c13", false, ctx.tier.pick(3000, 30_000),
        "producer/consumer arrangements (same project, imported project, chain of two producers in the imported project; identical relative paths and command texts in both projects) x edits of producer outputs, of look-alikes in the consumer's project and of command sources; structural: resolved consumer depends on X and its input is own resources followed by X's outputs bound to X's directory; behavioural: producer-output change => consumer runs, unchanged => skipped; non-trivial = cross-project with a colliding path or command text",
        113);
    report.finish()
}

fn c05(ctx: &Ctx) -> i32 {
    let mut report = Report::new(ctx, "fault_enumeration");
    report.assume("a partial write is emulated as 'truncate, write the first k bytes of the serialised record, die' (File::create + sequential writes); reordering below the file system is out of scope");
    report.assume("with an unchanged input a corrupted record may lead to either decision unless an independent decoder (calibrated on the pristine record of the same run) says the bytes do not decode");
    report.assume("every zinoma spawned here runs under RLIMIT_AS = 4 GiB");
    super::bb::AS_LIMIT_MB.store(4096, std::sync::atomic::Ordering::Relaxed);
    bb_replays(ctx, &mut report);
    if let Some(p) = &ctx.replay {
        if read_replay(p).is_err() {
            replay_raw(ctx, &mut report, "state_file", p);
        }
    }
    if ctx.replay.is_none() {
        let rule = "fault x project {one target with files + command inputs, two targets linked by t.output}: script exit status {1,2,126,127,130,137,255}, script killed, zinoma aborting at {decided, deleted, script running, script done, state computed}, record written up to byte k, SIGINT/SIGTERM {just after exec, while the script runs, right after it}, state-file corruption {truncation, bit flip, overwrite, foreign content incl. huge declared lengths, patched length fields, trailing bytes} with the input changed or not; oracle = the next plain invocation exits 0 without panic/abort and runs the script again whenever that is the only correct answer; non-trivial = fault strictly inside the build cycle / corruption keeping the length; distinct = fault class x offset bucket x project";
        let pr = PropRun {
            ctx,
            engine: "BB",
            rule,
            total_cases: ctx.tier.pick(480, 4000),
            threads: 8.min(ctx.threads),
            max_shrink_iters: 60,
            stream: 105,
        };
        let (part, failures) = run_prop(&pr, c05_case, eval_c05);
        report.add(part);
        for f in failures {
            report.fail(f);
        }
        // coverage-guided fuzzing of the state-file reader, in-process, oracle inside the target;
        // seeded with the fixtures' .checksums files and with records produced just now
        let mut seeds = vec![];
        for two in [false, true] {
            let probe = eval_c05(&C05Case { two_targets: two, fault: Fault::Exit(1), revert: false });
            let _ = probe;
        }
        {
            let sb = super::bb::Sandbox::new("c05seed");
            sb.write("proj/src/a.txt", b"a");
            super::bb::write_project(&sb.path("proj"), &serde_json::json!({"targets": {"t": {"build": ":", "input": [{"paths": ["src"]}, {"cmd_stdout": "echo hi"}], "output": [{"paths": ["out"]}]}}}));
            let _ = super::bb::run_zinoma(&sb, &sb.path("proj"), &["t".to_string()], &[], std::time::Duration::from_secs(20), false);
            if let Ok(b) = std::fs::read(sb.path("proj/.zinoma/t.checksums")) {
                seeds.push(("fresh-record.bin".to_string(), b));
            }
        }
        run_fuzz(ctx, &mut report, FuzzSpec {
            target: "state_file",
            runs: ctx.tier.pick(30_000, 3_000_000),
            max_len: 1024,
            dict: None,
            corpus_seed_dir: verif_dir().join("corpus/state_file"),
            extra_seeds: seeds,
            jobs: ctx.tier.pick(2, 8),
            rule: "libFuzzer on arbitrary bytes used as the .checksums file of a target, then the real incremental::run in-process: never an error or a panic; a skip only if the independent decoder accepts the bytes; non-trivial = corpus entries that decode as a record; distinct = corpus entries kept by the fuzzer",
            nontrivial: |b| independent_decode(b).is_ok(),
        });
        if ctx.tier == Tier::Thorough {
            // exhaustive sub-spaces: every write offset, every truncation offset, a flip per byte
            let mut part = Part::new("BB-exhaustive", "every partial-write offset 0..=len, every truncation offset (input changed and unchanged), one bit flip per byte, for the one-target and the two-target reference records");
            for two in [false, true] {
                // probe the record length
                let probe = eval_c05(&C05Case { two_targets: two, fault: Fault::PartialWrite(u16::MAX), revert: false });
                let len = probe.sample["detail"]["full_len"].as_u64().unwrap_or(400) as usize;
                let cases = exhaustive_cases(two, len);
                let results: Vec<CaseResult> = {
                    let chunks: Vec<&[C05Case]> = cases.chunks(cases.len().div_ceil(8).max(1)).collect();
                    let mut out = vec![];
                    std::thread::scope(|s| {
                        let hs: Vec<_> = chunks.iter().map(|ch| s.spawn(move || ch.iter().map(eval_c05).collect::<Vec<_>>())).collect();
                        for h in hs {
                            out.extend(h.join().unwrap());
                        }
                    });
                    out
                };
                for r in results {
                    part.evaluations += 1;
                    for c in &r.classes {
                        part.class(c);
                    }
                    if let Some(i) = &r.inconclusive {
                        part.inconclusive(i);
                    }
                    if r.nontrivial && r.violation.is_none() {
                        part.nontrivial.insert(fnv(&r.fingerprint));
                        if part.samples.len() < 2 {
                            part.samples.push(r.sample.clone());
                        }
                    }
                    if let Some(msg) = r.violation {
                        report.fail(Failure { message: msg, signature: r.signature.unwrap_or_default(), replay: r.replay });
                    }
                }
            }
            part.exhaustive = Some(true);
            report.add(part);
        }
    }
    report.finish()
}

fn c16(ctx: &Ctx) -> i32 {
    let mut report = Report::new(ctx, "exploration");
    report.assume("ordering by barrier events (an irrelevant file created in each watched group, waited for through hook H7); inotify delivers the events of one descriptor in order");
    report.assume("directory creation/removal events carry no expectation; after a mkdir the barrier is taken twice before a file is created inside; operations on the listed path itself are not generated; groups always have an extension filter (without one the barrier itself would be relevant)");
    install_panic_hook();
    inc_replays(ctx, &mut report);
    if ctx.replay.is_none() {
        let pr = PropRun {
            ctx,
            engine: "INC",
            rule: "real TargetWatcher (inotify) over a scratch tree: 1-2 extension groups (incl. filters that match temporary-file names: rs~, swp, swx) x 1-12 operations beneath the watched directories (create, write, append, rename within / out / in, delete, mkdir + file inside, write under .zinoma) on names from 12 classes (relevant, other extension, *~, .*.swp, .*.swx, non-UTF-8, 200 characters, newline, name == extension); relevant => >= 1 invalidation before the next barrier, irrelevant => none; watcher thread panics recorded; survival probe at the end; non-trivial = an irrelevant operation followed by a relevant one, or an odd name; distinct = operation/name class set x filters",
            total_cases: ctx.tier.pick(2400, 20_000),
            threads: 12.min(ctx.threads),
            max_shrink_iters: 200,
            stream: 116,
        };
        let (part, failures) = run_prop(&pr, c16_case, eval_c16);
        report.add(part);
        for f in failures {
            report.fail(f);
        }
    }
    bb_replays(ctx, &mut report);
    if ctx.replay.is_none() {
        let pr = PropRun {
            ctx,
            engine: "BB",
            rule: "real binary with --watch on a fresh tree (no .zinoma yet): a service whose input is the whole project directory (with / without an extension filter) plus one or two build targets; 0-5 atomic changes (input file, root-level file, a file under .zinoma, an editor temporary, another extension) with quiescence in between; the number of service starts and script starts must equal 1 + the number of relevant changes for each target - zinoma's own first state writes (creation of .zinoma and of the records) must trigger nothing",
            total_cases: ctx.tier.pick(24, 300),
            threads: 6.min(ctx.threads),
            max_shrink_iters: 20,
            stream: 216,
        };
        let (part, failures) = run_prop(&pr, c16b_case, eval_c16b);
        report.add(part);
        for f in failures {
            report.fail(f);
        }
    }
    report.finish()
}

fn c18(ctx: &Ctx) -> i32 {
    let mut report = Report::new(ctx, "exploration");
    report.assume("model: per target, the content snapshot of its own declared resources taken when a run of it completed successfully (erased when it is cleaned or when it starts a run that fails); entry project, spelling, and what happened to other targets are deliberately not inputs of the prediction");
    report.assume("a target that was (or may have been) started in an invocation shut down by another target's failure may or may not have been recorded: either answer is accepted next time and the model re-synchronises");
    bb_replays(ctx, &mut report);
    if ctx.replay.is_none() {
        let pr = PropRun {
            ctx,
            engine: "BB",
            rule: "histories of 3-9 steps over one tree (root project named or not, imported project sub): invocations from either entry project (-p), spelling bare / qualified / through an aggregate / as a dependency or X.output producer of another target / both spellings at once, optionally --clean U for another target, interleaved with content edits, touches and new files in input directories and with a target that fails on demand; prediction skipped <=> recorded snapshot == current snapshot, compared with script traces; non-trivial = a target reached by >= 2 routes with a failure or clean in the history; distinct = route set x root naming",
            total_cases: ctx.tier.pick(1200, 6000),
            threads: 8.min(ctx.threads),
            max_shrink_iters: 120,
            stream: 118,
        };
        let (part, failures) = run_prop(&pr, c18_case, eval_c18);
        report.add(part);
        for f in failures {
            report.fail(f);
        }
    }
    report.finish()
}

fn cfg_bb_part(ctx: &Ctx, report: &mut Report, which: &'static str, defects: u8, broken: bool, cases: u32, rule: &str, stream: u64) {
    bb_replays(ctx, report);
    if ctx.replay.is_some() {
        return;
    }
    let pr = PropRun {
        ctx,
        engine: "BB",
        rule,
        total_cases: cases,
        threads: 8.min(ctx.threads),
        max_shrink_iters: 60,
        stream,
    };
    let strat = move || {
        use proptest::prelude::*;
        (projset(PsParams { defects, broken_refs: broken }), prop::collection::vec(any::<u8>(), 1..=3)).prop_map(|(ps, req)| C09Case { ps, req })
    };
    let (part, failures) = run_prop(&pr, strat, |c: &C09Case| eval_projset_bb(c, which));
    report.add(part);
    for f in failures {
        report.fail(f);
    }
}

/// Scratch directories of earlier runs whose process no longer exists (killed runs).
fn cleanup_stale_scratch() {
    let base = super::bb::scratch_base();
    if let Ok(rd) = std::fs::read_dir(&base) {
        for e in rd.flatten() {
            let name = e.file_name().to_string_lossy().to_string();
            let rest = if let Some(r) = name.strip_prefix("zvfuzzrun") {
                r
            } else if let Some(r) = name.strip_prefix("zvfuzz") {
                r
            } else if let Some(r) = name.strip_prefix("zv") {
                r
            } else {
                continue;
            };
            let pid: String = rest.chars().take_while(|c| c.is_ascii_digit()).collect();
            if let Ok(pid) = pid.parse::<i32>() {
                if !std::path::Path::new(&format!("/proc/{}", pid)).exists() {
                    let _ = std::fs::remove_dir_all(e.path());
                }
            }
        }
    }
}
