//! C10: every exit path is prompt and leaves no spawned process behind (black-box only).

use super::bb::*;
use super::bb_graph::*;
use super::graph::*;
use super::prop::*;
use proptest::prelude::*;
use serde::{Deserialize, Serialize};
use serde_json::{json, Map, Value};
use std::collections::BTreeSet;
use std::time::{Duration, Instant};

#[derive(Debug, Clone, Copy, PartialEq, Eq, Serialize, Deserialize)]
pub enum Cause {
    Int,
    Term,
    Failure,
    Normal,
}

#[derive(Debug, Clone, Serialize, Deserialize)]
pub struct C10Case {
    pub graph: Graph,
    pub roots: Vec<usize>,
    /// Per build target: runs "for ever" (exec sleep 100000) after touching its marker.
    pub long: Vec<bool>,
    pub watch: bool,
    pub cause: Cause,
    /// Which build fails (cause = Failure): index selector.
    pub failing: usize,
    /// Signal after this many long scripts / services are up (0 = right away).
    pub wait_for: usize,
    pub delay_ms: u16,
    pub double_signal: bool,
    /// 0 = generated graph; otherwise a large shape (queue pressure) of this size.
    pub large: usize,
    pub large_shape: u8,
    /// Build targets declare a slow `cmd_stdout` input, which widens the windows "during the
    /// up-to-date check" and "while the record is computed" for the signal to land in.
    #[serde(default)]
    pub slow_check: bool,
    /// Long-running build scripts run their command as a child of the shell (`sleep N` instead of
    /// `exec sleep N`). The grand-child is outside the statement; only the shells zinoma spawned
    /// are required to be gone, and the exit must still be prompt.
    #[serde(default)]
    pub non_exec: bool,
    /// Watch mode only: every service and every build also declares a file input of its own, and
    /// that file is rewritten this many times (each time waiting for the restart / re-run) before
    /// the signal is sent - processes replaced along the way must be gone too.
    #[serde(default)]
    pub churn: u8,
    /// async-std runtime threads of the zinoma process (0 = default).
    #[serde(default)]
    pub runtime_threads: u8,
    /// Watch mode only: an extra requested aggregate reaches, through a chain of 30 aggregates, a
    /// build whose input lies below a regular file (`plainfile.txt/sub`), which cannot be watched
    /// (ENOTDIR). Whether zinoma gives up or carries on, it must do so cleanly.
    #[serde(default)]
    pub unwatchable: bool,
}

pub fn c10_case() -> impl Strategy<Value = C10Case> {
    (
        raw_graph(8),
        prop::collection::vec(any::<u8>(), 1..=3),
        prop::collection::vec(any::<u8>(), 8),
        (any::<bool>(), 0u8..8, any::<u8>(), 0usize..5, 0u16..300, any::<bool>()),
        (0u8..10, 100usize..700, 0u8..2, any::<bool>(), 0u8..3, 0u8..6, prop::sample::select(vec![0u8, 0, 0, 1, 1, 2, 4]), 0u8..4),
    )
        .prop_map(
            |(raw, rootsel, longb, (watch, cause_b, failing_b, wait_for, delay_ms, double_signal), (large_b, large_size, large_shape, slow_check, non_exec_b, churn_b, runtime_threads, unwatchable_b))| {
                let graph = build_graph(&raw);
                let n = graph.n();
                let roots = pick_roots(&graph, &rootsel);
                let long: Vec<bool> = (0..n).map(|i| longb[i] >= 128).collect();
                let cause = match cause_b {
                    0..=2 => Cause::Term,
                    3..=4 => Cause::Int,
                    5..=6 => Cause::Failure,
                    _ => Cause::Normal,
                };
                let large = if large_b == 0 { large_size } else { 0 };
                let watch = watch && matches!(cause, Cause::Int | Cause::Term);
                C10Case {
                    graph,
                    roots,
                    long,
                    watch,
                    cause,
                    failing: failing_b as usize,
                    wait_for,
                    delay_ms,
                    double_signal,
                    large,
                    large_shape: if large_shape == 0 { 1 } else { 5 },
                    slow_check: slow_check && large == 0,
                    non_exec: non_exec_b == 0 && large == 0,
                    churn: if watch && large == 0 && churn_b >= 3 { churn_b - 2 } else { 0 },
                    runtime_threads,
                    unwatchable: watch && large == 0 && unwatchable_b == 0,
                }
            },
        )
}

struct Plan {
    graph: Graph,
    roots: Vec<usize>,
    long: BTreeSet<usize>,
    failing: Option<usize>,
    /// A long-running sibling (or service) the failing script waits for before failing.
    fail_after: Option<usize>,
}

fn plan(c: &C10Case) -> Plan {
    if c.large > 0 {
        let (g, roots, _) = large_graph(&LargeCase {
            shape: c.large_shape,
            size: c.large,
            extra: 0,
        });
        return Plan {
            graph: g,
            roots,
            long: BTreeSet::new(),
            failing: None,
            fail_after: None,
        };
    }
    let g = c.graph.clone();
    let clo = g.closure(&c.roots);
    let builds: Vec<usize> = clo
        .iter()
        .copied()
        .filter(|&i| g.targets[i].kind == Kind::Build)
        .collect();
    let mut long: BTreeSet<usize> = builds
        .iter()
        .copied()
        .filter(|&i| c.long.get(i).copied().unwrap_or(false))
        .collect();
    let mut failing = None;
    match c.cause {
        Cause::Normal => long.clear(),
        Cause::Failure => {
            if !builds.is_empty() {
                // the failing one must be able to start: none of its dependencies is long
                let cands: Vec<usize> = builds
                    .iter()
                    .copied()
                    .filter(|&i| g.trans_deps(i).iter().all(|d| !long.contains(d)))
                    .collect();
                if !cands.is_empty() {
                    let f = cands[c.failing % cands.len()];
                    long.remove(&f);
                    failing = Some(f);
                }
            }
        }
        _ => {}
    }
    // the failure should land while something else is alive: pick (or make) a long sibling or a
    // service that can start independently of the failing target
    let mut fail_after = None;
    if let Some(f) = failing {
        let independent = |i: usize| {
            i != f
                && !g.trans_deps(i).contains(&f)
                && !g.trans_deps(f).contains(&i)
                && g.trans_deps(i).iter().all(|d| !long.contains(d))
        };
        fail_after = clo
            .iter()
            .copied()
            .find(|&i| (long.contains(&i) || g.targets[i].kind == Kind::Service) && independent(i));
        if fail_after.is_none() {
            if let Some(i) = builds.iter().copied().find(|&i| independent(i)) {
                long.insert(i);
                fail_after = Some(i);
            }
        }
    }
    Plan {
        graph: g,
        roots: c.roots.clone(),
        long,
        failing,
        fail_after,
    }
}

fn write_c10_project(sb: &Sandbox, p: &Plan, slow_check: bool, non_exec: bool, churn: bool, unwatchable: bool) -> std::path::PathBuf {
    let g = &p.graph;
    let dir = write_c10_project_inner(sb, p, non_exec);
    if unwatchable {
        // an extra requested aggregate reaches, through a chain of aggregates, a build whose input
        // lies below a regular file; the chain gives the other scripts time to come up first
        let pdir = sb.path(&proj_rel(0));
        let _ = std::fs::write(pdir.join("plainfile.txt"), b"a regular file\n");
        let path = pdir.join("zinoma.yml");
        if let Ok(text) = std::fs::read_to_string(&path) {
            if let Ok(mut doc) = serde_json::from_str::<Value>(&text) {
                if let Some(ts) = doc["targets"].as_object_mut() {
                    const CHAIN: usize = 30;
                    for k in 1..CHAIN {
                        ts.insert(format!("zz_c{}", k), json!({"dependencies": [format!("zz_c{}", k + 1)]}));
                    }
                    ts.insert(format!("zz_c{}", CHAIN), json!({"dependencies": ["zz_unwatchable"]}));
                    ts.insert("zz_unwatchable".into(), json!({"build": "echo built", "input": [{"paths": ["plainfile.txt/sub"]}]}));
                }
                let _ = std::fs::write(&path, serde_json::to_string_pretty(&doc).unwrap());
            }
        }
    }
    if churn {
        // every build and service watches a file of its own project
        for pr in 0..g.nproj {
            let pdir = sb.path(&proj_rel(pr));
            let _ = std::fs::create_dir_all(pdir.join("own_input"));
            let _ = std::fs::write(pdir.join("own_input/f.txt"), b"v0\n");
            let path = pdir.join("zinoma.yml");
            if let Ok(text) = std::fs::read_to_string(&path) {
                if let Ok(mut doc) = serde_json::from_str::<Value>(&text) {
                    if let Some(ts) = doc["targets"].as_object_mut() {
                        for (_, t) in ts.iter_mut() {
                            if t.get("build").is_some() || t.get("service").is_some() {
                                let mut input = t["input"].as_array().cloned().unwrap_or_default();
                                input.push(json!({"paths": ["own_input"]}));
                                t["input"] = Value::Array(input);
                            }
                        }
                    }
                    let _ = std::fs::write(&path, serde_json::to_string_pretty(&doc).unwrap());
                }
            }
        }
    }
    if slow_check {
        // add a slow command input to every build target (rewrite the project files)
        for pr in 0..g.nproj {
            let path = sb.path(&proj_rel(pr)).join("zinoma.yml");
            if let Ok(text) = std::fs::read_to_string(&path) {
                if let Ok(mut doc) = serde_json::from_str::<Value>(&text) {
                    if let Some(ts) = doc["targets"].as_object_mut() {
                        for (_, t) in ts.iter_mut() {
                            if t.get("build").is_some() {
                                let mut input = t["input"].as_array().cloned().unwrap_or_default();
                                input.push(json!({"cmd_stdout": "sleep 0.15; echo v"}));
                                t["input"] = Value::Array(input);
                            }
                        }
                    }
                    let _ = std::fs::write(&path, serde_json::to_string_pretty(&doc).unwrap());
                }
            }
        }
    }
    dir
}

fn write_c10_project_inner(sb: &Sandbox, p: &Plan, non_exec: bool) -> std::path::PathBuf {
    let g = &p.graph;
    write_graph_project_with(sb, g, &|i| {
        let id = g.ids(i);
        match g.targets[i].kind {
            Kind::Build => {
                if p.long.contains(&i) {
                    format!(
                        "echo \"S {id} $$\" >> \"$ZV_TRACE\"\ntouch \"$ZV_ROOT/started.{i}\"\n{exec}sleep 100000",
                        id = id,
                        i = i,
                        exec = if non_exec { "" } else { "exec " }
                    )
                } else if p.failing == Some(i) {
                    let wait = match p.fail_after {
                        Some(s) => format!(
                            "i=0; while [ ! -e \"$ZV_ROOT/started.{}\" ] && [ $i -lt 150 ]; do sleep 0.02; i=$((i+1)); done\n",
                            s
                        ),
                        None => String::new(),
                    };
                    format!(
                        "echo \"S {id} $$\" >> \"$ZV_TRACE\"\ntouch \"$ZV_ROOT/started.{i}\"\n{wait}sleep 0.05\ndate +%s%N > \"$ZV_ROOT/failed_at\"\nexit 3",
                        id = id,
                        i = i,
                        wait = wait
                    )
                } else {
                    build_script(&id, "")
                }
            }
            Kind::Service => format!(
                "echo \"V {id} $$\" >> \"$ZV_TRACE\"\ntouch \"$ZV_ROOT/started.{i}\"\nexec sleep 100000",
                id = id,
                i = i
            ),
            Kind::Aggregate => String::new(),
        }
    })
}

/// Like `write_graph_project` but the closure gives the *whole* script of builds and services.
pub fn write_graph_project_with(
    sb: &Sandbox,
    g: &Graph,
    script: &dyn Fn(usize) -> String,
) -> std::path::PathBuf {
    for p in 0..g.nproj {
        let mut targets = Map::new();
        for (i, t) in g.targets.iter().enumerate() {
            if t.proj != p {
                continue;
            }
            let deps: Vec<String> = t.deps.iter().map(|&j| g.reference(i, j)).collect();
            let input: Vec<Value> = t
                .outdeps
                .iter()
                .map(|&j| json!(format!("{}.output", g.reference(i, j))))
                .collect();
            let doc = match t.kind {
                Kind::Build => json!({"dependencies": deps, "build": script(i), "input": input}),
                Kind::Service => json!({"dependencies": deps, "service": script(i), "input": input}),
                Kind::Aggregate => json!({ "dependencies": deps }),
            };
            targets.insert(g.tname(i), doc);
        }
        let mut doc = Map::new();
        if let Some(name) = g.proj_name(p) {
            doc.insert("name".into(), json!(name));
        }
        if p == 0 && g.nproj > 1 {
            let mut imports = Map::new();
            for q in 1..g.nproj {
                imports.insert(format!("p{}", q), json!(format!("p{}", q)));
            }
            doc.insert("imports".into(), Value::Object(imports));
        }
        doc.insert("targets".into(), Value::Object(targets));
        write_project(&sb.path(&proj_rel(p)), &Value::Object(doc));
    }
    sb.path("proj")
}

fn now_ns() -> u128 {
    std::time::SystemTime::now()
        .duration_since(std::time::UNIX_EPOCH)
        .unwrap()
        .as_nanos()
}

fn describe(pids: &[i32]) -> Vec<String> {
    pids.iter()
        .map(|p| {
            let cmd = std::fs::read(format!("/proc/{}/cmdline", p))
                .map(|b| String::from_utf8_lossy(&b).replace('\0', " "))
                .unwrap_or_default();
            format!("pid {} ppid {:?} [{}]", p, proc_ppid(*p), cmd.trim())
        })
        .collect()
}

pub fn eval_c10(c: &C10Case) -> CaseResult {
    set_runtime_threads(c.runtime_threads);
    let p = plan(c);
    let g = &p.graph;
    let sb = Sandbox::new("c10");
    let dir = write_c10_project(&sb, &p, c.slow_check, c.non_exec, c.churn > 0, c.unwatchable);
    let mut args: Vec<String> = vec![];
    if c.watch {
        args.push("--watch".into());
    }
    for &r in &p.roots {
        args.push(cli_name(g, r, false));
    }
    if c.unwatchable {
        args.push("zz_c1".into());
    }
    let clo = g.closure(&p.roots);
    // which long scripts / services can come up at all
    let can_start: Vec<usize> = clo
        .iter()
        .copied()
        .filter(|&i| {
            (p.long.contains(&i) || g.targets[i].kind == Kind::Service)
                && g.trans_deps(i)
                    .iter()
                    .all(|d| !p.long.contains(d) && p.failing != Some(*d))
        })
        .collect();
    let wait_for = c.wait_for.min(can_start.len());
    let cause = if p.failing.is_none() && c.cause == Cause::Failure {
        Cause::Normal
    } else {
        c.cause
    };
    let root_service = p.roots.iter().any(|&r| g.has_service_behind(r));
    let mode = if c.watch { "watch" } else { "one-shot" };
    let mut classes = vec![
        format!("cause-{:?}", cause),
        format!("mode-{}", mode),
        if c.large > 0 { "large".to_string() } else { "generated".to_string() },
    ];
    if c.slow_check {
        classes.push("slow-up-to-date-check".to_string());
    }
    if c.non_exec {
        classes.push("non-exec-scripts".to_string());
    }
    if c.runtime_threads > 0 {
        classes.push(format!("runtime-threads-{}", c.runtime_threads));
    }
    if c.unwatchable {
        classes.push("unwatchable-input".to_string());
    }
    let sample = json!({
        "mode": mode, "cause": format!("{:?}", cause), "wait_for": wait_for, "delay_ms": c.delay_ms,
        "double_signal": c.double_signal,
        "large": c.large,
        "targets": if c.large > 0 { json!(g.n()) } else { json!((0..g.n()).map(|i| format!("{}:{:?} deps={:?}{}{}", g.ids(i), g.targets[i].kind,
            g.edges(i).iter().map(|&j| g.ids(j)).collect::<Vec<_>>(),
            if p.long.contains(&i) {" long"} else {""}, if p.failing==Some(i) {" fails"} else {""})).collect::<Vec<_>>()) },
        "requested": p.roots.iter().take(8).map(|&r| g.ids(r)).collect::<Vec<_>>(),
    });
    let mut res = CaseResult {
        sample: sample.clone(),
        ..Default::default()
    };

    let mut z = spawn_zinoma(&sb, &dir, &args, &[]);
    let t0 = Instant::now();
    let mut alive_at_event = 0usize;
    let mut event_at: Option<Instant> = None;
    let mut exited_early = None;
    let sig = match cause {
        Cause::Int => Some(libc::SIGINT),
        Cause::Term => Some(libc::SIGTERM),
        _ => None,
    };
    let expect_self_exit = sig.is_none() && !(cause == Cause::Normal && root_service);
    if let Some(sig) = sig {
        // rendezvous on marker files
        let deadline = Instant::now() + Duration::from_secs(15);
        loop {
            let up = can_start
                .iter()
                .filter(|&&i| sb.path(&format!("started.{}", i)).exists())
                .count();
            if up >= wait_for && (wait_for > 0 || t0.elapsed() >= Duration::from_millis(c.delay_ms as u64)) {
                break;
            }
            if let Some(s) = z.try_exit() {
                exited_early = Some(s);
                break;
            }
            if Instant::now() > deadline {
                break;
            }
            std::thread::sleep(Duration::from_millis(2));
        }
        if wait_for > 0 && c.delay_ms > 0 {
            std::thread::sleep(Duration::from_millis((c.delay_ms % 50) as u64));
        }
        let mut restarts_seen = 0usize;
        if exited_early.is_none() && c.churn > 0 {
            // rewrite the file every build and service declares, and wait for the reaction
            // (a new service instance or a new script start) before going on
            for k in 0..c.churn {
                let before = sb.trace().len();
                for pr in 0..g.nproj {
                    let f = sb.path(&proj_rel(pr)).join("own_input/f.txt");
                    let tmp = sb.path(&format!("own_input_tmp_{}", pr));
                    let _ = std::fs::write(&tmp, format!("v{}\n", k + 1));
                    let _ = std::fs::rename(&tmp, &f);
                }
                let until = Instant::now() + Duration::from_millis(2500);
                while Instant::now() < until && sb.trace().len() == before {
                    std::thread::sleep(Duration::from_millis(10));
                }
                if sb.trace().len() > before {
                    restarts_seen += 1;
                    // let the replacement come up
                    std::thread::sleep(Duration::from_millis(150));
                }
                if z.try_exit().is_some() {
                    break;
                }
            }
            classes.push(format!("input-churn-reacted-{}", restarts_seen.min(3)));
        }
        if let Some(s) = z.try_exit() {
            exited_early = Some(s);
        }
        if exited_early.is_none() {
            alive_at_event = sb.marked_processes().iter().filter(|&&q| q != z.pid).count();
            z.signal(sig);
            event_at = Some(Instant::now());
            if c.double_signal {
                std::thread::sleep(Duration::from_millis(1));
                z.signal(sig);
            }
        }
    }
    // wait for exit
    let mut status = exited_early;
    let mut latency: Option<Duration> = None;
    let mut ignored = false;
    let hard = Instant::now() + Duration::from_secs(25);
    let mut keepalive_term_sent = false;
    while status.is_none() {
        if let Some(s) = z.try_exit() {
            status = Some(s);
            break;
        }
        if let Some(e) = event_at {
            if e.elapsed() > Duration::from_secs(12) {
                ignored = true;
                break;
            }
        } else if cause == Cause::Failure {
            // event time = the failing script's own timestamp
        } else if !expect_self_exit && !keepalive_term_sent && t0.elapsed() > Duration::from_secs(2) {
            // Normal completion with a requested service: zinoma legitimately stays; end it.
            alive_at_event = sb.marked_processes().iter().filter(|&&q| q != z.pid).count();
            z.signal(libc::SIGTERM);
            event_at = Some(Instant::now());
            keepalive_term_sent = true;
        }
        if Instant::now() > hard {
            ignored = true;
            break;
        }
        std::thread::sleep(Duration::from_millis(2));
    }
    let exit_ns = now_ns();
    if let Some(e) = event_at {
        latency = Some(e.elapsed());
    }
    if cause == Cause::Failure {
        if let Ok(s) = std::fs::read_to_string(sb.path("failed_at")) {
            if let Ok(t) = s.trim().parse::<u128>() {
                latency = Some(Duration::from_nanos(exit_ns.saturating_sub(t) as u64));
                // siblings alive when it failed: approximate by long scripts that had started
                alive_at_event = can_start
                    .iter()
                    .filter(|&&i| sb.path(&format!("started.{}", i)).exists())
                    .count();
            }
        }
    }
    if status.is_none() {
        let _ = z.child.kill();
        let _ = z.child.wait();
    }
    // settle, then look for survivors (short-lived `cmd_stdout` shells of the up-to-date check are
    // neither builds nor services: give them time to end by themselves)
    std::thread::sleep(Duration::from_millis(if c.slow_check { 700 } else { 200 }));
    let mut leaked = sb.marked_processes();
    if c.non_exec {
        // grand-children of non-exec scripts are outside the statement: only the shells zinoma
        // itself spawned (their pids are in the trace) have to be gone
        let shells: BTreeSet<i32> = sb.trace().iter().map(|t| t.pid).collect();
        leaked.retain(|p| shells.contains(p));
    }
    let leaked_desc = describe(&leaked);
    let stderr = z.stderr_so_far();

    classes.push(format!("alive-at-event-{}", alive_at_event.min(4)));
    res.classes = classes;
    res.nontrivial = alive_at_event >= 1 || c.large > 0;
    res.fingerprint = format!(
        "{:?}|{}|w{}|a{}|d{}|L{}|s{}",
        cause,
        mode,
        wait_for,
        alive_at_event.min(4),
        c.double_signal,
        c.large > 0,
        c.slow_check
    );
    let replay = |msg: &str| {
        json!({"engine": "BB-c10", "case": serde_json::to_value(c).unwrap(), "summary": sample, "message": msg,
            "latency_ms": latency.map(|l| l.as_millis() as u64), "leaked": leaked_desc,
            "stderr_tail": stderr.lines().rev().take(10).collect::<Vec<_>>()})
    };
    if ignored {
        let msg = match cause {
            Cause::Failure => "a target failed but zinoma did not exit within 12 s".to_string(),
            Cause::Normal => "all work done (no service requested) but zinoma did not exit within 25 s".to_string(),
            _ => format!(
                "{:?} sent ({} mode, {} spawned processes alive) was not honoured within 12 s",
                cause, mode, alive_at_event
            ),
        };
        res.signature = Some(format!("bb-c10:ignored:{:?}", cause));
        res.replay = replay(&msg);
        res.violation = Some(msg);
        return res;
    }
    if let Some(l) = latency {
        if l > Duration::from_secs(5) {
            let msg = format!(
                "exit took {:?} after the {:?} event ({} mode) although every remaining script only sleeps",
                l, cause, mode
            );
            res.signature = Some(format!("bb-c10:slow:{:?}", cause));
            res.replay = replay(&msg);
            res.violation = Some(msg);
            return res;
        }
    }
    if !leaked.is_empty() {
        let msg = format!(
            "after zinoma exited ({:?}, {} mode) processes it spawned are still alive: {:?}",
            cause, mode, leaked_desc
        );
        res.signature = Some(format!("bb-c10:leak:{:?}", cause));
        res.replay = replay(&msg);
        res.violation = Some(msg);
        return res;
    }
    if cause == Cause::Failure && status.is_some_and(|s| s.success()) && latency.is_some() {
        // exit status is C07's business; nothing to say here
    }
    res
}

pub fn replay_c10(v: &Value) -> Result<CaseResult, String> {
    let c: C10Case =
        serde_json::from_value(v["case"].clone()).map_err(|e| format!("bad C10 case: {}", e))?;
    Ok(eval_c10(&c))
}
