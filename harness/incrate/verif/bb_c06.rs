//! C06 (black-box part): watch mode converges, with real inotify. Placement of changes by
//! rendezvous files; verdict at quiescence: every output equals f(final inputs).

use super::bb::*;
use super::bb_c10::write_graph_project_with;
use super::bb_graph::*;
use super::graph::*;
use super::prop::*;
use proptest::prelude::*;
use serde::{Deserialize, Serialize};
use serde_json::{json, Value};
use std::collections::{BTreeMap, BTreeSet};
use std::time::{Duration, Instant};

#[derive(Debug, Clone, Serialize, Deserialize)]
pub enum WStep {
    /// Content change of target i's input while zinoma is idle.
    Idle(u8),
    /// Hold a run of `victim` (selector among {i} u dependents(i)), then change i's input while
    /// that run is in flight. `after_read`: the held script has already read its inputs.
    MidBuild { i: u8, victim: u8, after_read: bool },
    /// Several changes in a row without waiting.
    Burst(Vec<u8>),
    /// A change, then - as soon as the build it triggered has completed and been recorded - a
    /// second change of the same input (typically 20-80 ms after the first).
    QuickFollowUp(u8),
}

#[derive(Debug, Clone, Serialize, Deserialize)]
pub struct C06Case {
    pub graph: Graph,
    pub prebuilt: bool,
    pub steps: Vec<WStep>,
    /// async-std runtime threads of the watching zinoma (0 = default).
    #[serde(default)]
    pub runtime_threads: u8,
    /// Every other change arrives with a modification time in the past (a file moved over the
    /// input, a backup restored with its timestamps).
    #[serde(default)]
    pub past_mtimes: bool,
}

pub fn c06_case() -> impl Strategy<Value = C06Case> {
    let step = prop_oneof![
        3 => any::<u8>().prop_map(WStep::Idle),
        4 => (any::<u8>(), any::<u8>(), any::<bool>()).prop_map(|(i, victim, after_read)| WStep::MidBuild { i, victim, after_read }),
        1 => prop::collection::vec(any::<u8>(), 2..=4).prop_map(WStep::Burst),
        3 => any::<u8>().prop_map(WStep::QuickFollowUp),
    ];
    (raw_graph(4), any::<bool>(), prop::collection::vec(step, 0..=4), prop::sample::select(vec![0u8, 0, 0, 1, 1, 2, 4]), any::<bool>()).prop_map(|(raw, prebuilt, steps, runtime_threads, past_mtimes)| {
        let mut graph = build_graph(&raw);
        graph.nproj = 1;
        graph.root_named = false;
        for t in graph.targets.iter_mut() {
            t.kind = Kind::Build;
            t.proj = 0;
            // every edge both orders the builds and feeds the consumer
            let mut e: Vec<usize> = t.deps.iter().chain(t.outdeps.iter()).copied().collect();
            e.sort();
            e.dedup();
            t.deps = vec![];
            t.outdeps = e;
        }
        C06Case { graph, prebuilt, steps, runtime_threads, past_mtimes }
    })
}

fn script(g: &Graph, i: usize) -> String {
    let id = g.ids(i);
    let mut s = format!("echo \"S {id} $$\" >> \"$ZV_TRACE\"\n", id = id);
    s.push_str(&format!(
        "if [ -e \"$ZV_ROOT/hold_early.{i}\" ]; then touch \"$ZV_ROOT/started.{i}\"; while [ -e \"$ZV_ROOT/hold_early.{i}\" ]; do sleep 0.01; done; fi\n",
        i = i
    ));
    s.push_str(&format!("v=\"$(cat in_{i}/x.txt)\"\n", i = i));
    for d in g.edges(i) {
        s.push_str(&format!("v=\"$v|$(cat out_{d}/y.txt)\"\n", d = d));
    }
    s.push_str(&format!(
        "if [ -e \"$ZV_ROOT/hold.{i}\" ]; then touch \"$ZV_ROOT/started.{i}\"; while [ -e \"$ZV_ROOT/hold.{i}\" ]; do sleep 0.01; done; fi\n",
        i = i
    ));
    s.push_str(&format!(
        "mkdir -p out_{i}\nprintf '%s' \"$v\" > out_{i}/y.tmp\nmv out_{i}/y.tmp out_{i}/y.txt\necho \"F {id} $$\" >> \"$ZV_TRACE\"",
        i = i,
        id = id
    ));
    s
}

fn write_c06_project(sb: &Sandbox, g: &Graph) -> std::path::PathBuf {
    // like write_graph_project_with, plus declared inputs and outputs
    let mut targets = serde_json::Map::new();
    for i in 0..g.n() {
        let mut input: Vec<Value> = vec![json!({"paths": [format!("in_{}", i)]})];
        for d in g.edges(i) {
            input.push(json!(format!("{}.output", g.tname(d))));
        }
        targets.insert(
            g.tname(i),
            json!({"build": script(g, i), "input": input, "output": [{"paths": [format!("out_{}", i)]}]}),
        );
    }
    write_project(&sb.path("proj"), &json!({ "targets": targets }));
    for i in 0..g.n() {
        sb.write(&format!("proj/in_{}/x.txt", i), format!("i{}v0", i).as_bytes());
    }
    sb.path("proj")
}

fn expected(g: &Graph, inputs: &BTreeMap<usize, String>, i: usize) -> String {
    let mut v = inputs[&i].clone();
    for d in g.edges(i) {
        v.push('|');
        v.push_str(&expected(g, inputs, d));
    }
    v
}

fn dependents(g: &Graph, i: usize) -> Vec<usize> {
    (0..g.n()).filter(|&t| g.trans_deps(t).contains(&i)).collect()
}

/// zinoma is idle: no child process, threads asleep, CPU flat, and the trace did not grow.
fn wait_quiescent(z: &mut ZProc, sb: &Sandbox, budget: Duration) -> Result<(), String> {
    let deadline = Instant::now() + budget;
    let mut stable = 0;
    let mut last_len = usize::MAX;
    let mut last_cpu = None;
    while Instant::now() < deadline {
        if let Some(s) = z.try_exit() {
            return Err(format!("zinoma exited: {:?}", s));
        }
        let len = sb.trace().len();
        let cpu = proc_cpu_ticks(z.pid);
        let idle = children_of(z.pid).is_empty() && proc_threads_all_sleeping(z.pid);
        if idle && len == last_len && cpu == last_cpu {
            stable += 1;
            if stable >= 3 {
                return Ok(());
            }
        } else {
            stable = 0;
        }
        last_len = len;
        last_cpu = cpu;
        std::thread::sleep(Duration::from_millis(150));
    }
    Err("still busy".into())
}

pub fn eval_c06(case: &C06Case, exclude_after_read: bool) -> CaseResult {
    let g = &case.graph;
    let n = g.n();
    set_runtime_threads(case.runtime_threads);
    let sb = Sandbox::new("c06");
    let dir = write_c06_project(&sb, g);
    let sinks: Vec<usize> = (0..n).filter(|&i| dependents(g, i).is_empty()).collect();
    let args_roots: Vec<String> = sinks.iter().map(|&i| g.tname(i)).collect();
    let mut inputs: BTreeMap<usize, String> = (0..n).map(|i| (i, format!("i{}v0", i))).collect();
    let mut res = CaseResult::default();
    let mut classes: BTreeSet<String> = BTreeSet::new();
    let mut excluded = 0u32;
    classes.insert(if case.prebuilt { "built-tree".into() } else { "clean-tree".into() });
    if case.past_mtimes {
        classes.insert("changes-with-past-mtime".into());
    }
    if case.prebuilt {
        let o = run_zinoma(&sb, &dir, &args_roots, &[], Duration::from_secs(30), false);
        if !o.success() {
            res.inconclusive = Some(format!("pre-build failed: {:?}", o.status));
            return res;
        }
    }
    sb.clear_trace();
    let mut args = vec!["--watch".to_string()];
    args.extend(args_roots.iter().cloned());
    let mut z = spawn_zinoma(&sb, &dir, &args, &[]);
    let mut history: Vec<String> = vec![format!("zinoma {} ({} tree)", args.join(" "), if case.prebuilt { "built" } else { "clean" })];
    let mut counter = 0u32;
    let mut in_flight_edit = false;
    let mut after_read_edit = false;
    let mut failure: Option<(String, String)> = None;
    let mut edit = |inputs: &mut BTreeMap<usize, String>, i: usize, counter: &mut u32| {
        *counter += 1;
        let v = format!("i{}v{}", i, counter);
        // atomic replacement (write elsewhere, rename over): a reader sees the old or the new
        // content, never a truncated file
        sb.write("staging/x.tmp", v.as_bytes());
        if case.past_mtimes && *counter % 2 == 1 {
            set_mtime(&sb.path("staging/x.tmp"), 1_000_000_000 + *counter as i64, 0);
        }
        let _ = std::fs::rename(sb.path("staging/x.tmp"), sb.path(&format!("proj/in_{}/x.txt", i)));
        inputs.insert(i, v);
    };
    // start-up must succeed and bring everything up to date
    match wait_quiescent(&mut z, &sb, Duration::from_secs(30)) {
        Ok(()) => {}
        Err(e) if e.starts_with("zinoma exited") => {
            let stderr = z.stderr_so_far();
            failure = Some((
                "startup-exit".into(),
                format!(
                    "`zinoma --watch` on a {} tree exited at start-up ({}): {}",
                    if case.prebuilt { "built" } else { "clean" },
                    e,
                    stderr.lines().filter(|l| l.contains("Error") || l.contains("rror")).last().unwrap_or(stderr.lines().last().unwrap_or(""))
                ),
            ));
        }
        Err(_) => {
            res.inconclusive = Some("still busy at start-up budget".into());
        }
    }
    if failure.is_none() && res.inconclusive.is_none() {
        'steps: for st in &case.steps {
            match st {
                WStep::Idle(b) => {
                    let i = (*b as usize * n) >> 8;
                    edit(&mut inputs, i, &mut counter);
                    history.push(format!("idle: change in_{}", i));
                    classes.insert("idle-change".into());
                    if wait_quiescent(&mut z, &sb, Duration::from_secs(20)).is_err() {
                        break 'steps;
                    }
                }
                WStep::QuickFollowUp(b) => {
                    let i = (*b as usize * n) >> 8;
                    let id = g.ids(i);
                    let state = sb.path(&format!("proj/.zinoma/{}.checksums", id));
                    let mtime = |p: &std::path::Path| std::fs::metadata(p).and_then(|m| m.modified()).ok();
                    let f_before = finished(&sb.trace(), &id);
                    let m_before = mtime(&state);
                    edit(&mut inputs, i, &mut counter);
                    history.push(format!("quick follow-up: change in_{}", i));
                    // wait until that build finished AND its record was rewritten
                    let t0 = Instant::now();
                    let mut recorded = false;
                    while t0.elapsed() < Duration::from_secs(10) {
                        if finished(&sb.trace(), &id) > f_before && mtime(&state).is_some() && mtime(&state) != m_before {
                            recorded = true;
                            break;
                        }
                        std::thread::sleep(Duration::from_millis(1));
                    }
                    if recorded {
                        std::thread::sleep(Duration::from_millis(15));
                        edit(&mut inputs, i, &mut counter);
                        in_flight_edit = true;
                        history.push(format!("  ... second change of in_{} {} ms after the first", i, t0.elapsed().as_millis()));
                        classes.insert("quick-follow-up".into());
                    }
                    if wait_quiescent(&mut z, &sb, Duration::from_secs(20)).is_err() {
                        break 'steps;
                    }
                }
                WStep::Burst(bs) => {
                    // a burst can land a change after a running script read its input (the same
                    // class as `after_read`): while that finding is open the changes are applied
                    // one by one with quiescence in between (counted as excluded)
                    if exclude_after_read {
                        excluded += 1;
                    } else {
                        after_read_edit = true;
                    }
                    for b in bs {
                        let i = (*b as usize * n) >> 8;
                        edit(&mut inputs, i, &mut counter);
                        history.push(format!("burst: change in_{}", i));
                        if exclude_after_read && wait_quiescent(&mut z, &sb, Duration::from_secs(20)).is_err() {
                            break 'steps;
                        }
                    }
                    classes.insert("burst".into());
                    in_flight_edit = in_flight_edit || !exclude_after_read;
                    if wait_quiescent(&mut z, &sb, Duration::from_secs(20)).is_err() {
                        break 'steps;
                    }
                }
                WStep::MidBuild { i, victim, after_read } => {
                    let i = (*i as usize * n) >> 8;
                    let mut cands = vec![i];
                    cands.extend(dependents(g, i));
                    let j = cands[(*victim as usize * cands.len()) >> 8];
                    let mut after_read = *after_read;
                    if after_read && exclude_after_read {
                        // open known finding: placement excluded by construction (counted)
                        excluded += 1;
                        after_read = false;
                    }
                    let hold = if after_read { format!("hold.{}", j) } else { format!("hold_early.{}", j) };
                    let _ = std::fs::remove_file(sb.path(&format!("started.{}", j)));
                    sb.write(&hold, b"1");
                    // trigger a run of j (a change of its own input)
                    edit(&mut inputs, j, &mut counter);
                    let t0 = Instant::now();
                    while !sb.path(&format!("started.{}", j)).exists() && t0.elapsed() < Duration::from_secs(10) {
                        std::thread::sleep(Duration::from_millis(2));
                    }
                    if !sb.path(&format!("started.{}", j)).exists() {
                        let _ = std::fs::remove_file(sb.path(&hold));
                        history.push(format!("mid-build: run of t{} never started after its input changed", j));
                        // decided by the final comparison
                        let _ = wait_quiescent(&mut z, &sb, Duration::from_secs(20));
                        continue;
                    }
                    // the change that lands while the run of j is in flight
                    edit(&mut inputs, i, &mut counter);
                    in_flight_edit = true;
                    if after_read {
                        after_read_edit = true;
                    }
                    history.push(format!(
                        "mid-build: run of t{} held {}, change in_{} (dependency: {})",
                        j,
                        if after_read { "after reading its inputs" } else { "before reading its inputs" },
                        i,
                        i != j
                    ));
                    classes.insert(if i == j { "change-during-own-run".into() } else { "change-in-dependency-while-dependent-runs".into() });
                    classes.insert(if after_read { "held-after-read".into() } else { "held-before-read".into() });
                    // inotify latency is far below this grace
                    std::thread::sleep(Duration::from_millis(300));
                    let _ = std::fs::remove_file(sb.path(&hold));
                    if wait_quiescent(&mut z, &sb, Duration::from_secs(20)).is_err() {
                        break 'steps;
                    }
                }
            }
        }
        // final verdict at quiescence
        match wait_quiescent(&mut z, &sb, Duration::from_secs(20)) {
            Ok(()) => {
                for &i in &g.closure(&sinks) {
                    let want = expected(g, &inputs, i);
                    let got = std::fs::read_to_string(sb.path(&format!("proj/out_{}/y.txt", i))).unwrap_or_else(|_| "<missing>".into());
                    if got != want {
                        let sig = if after_read_edit { "snapshot-after-script" } else { "stale-output" };
                        failure = Some((
                            sig.into(),
                            format!(
                                "watch mode idle after the last change, but out_{} is {:?} while its inputs say {:?} ({})",
                                i,
                                got,
                                want,
                                history.last().cloned().unwrap_or_default()
                            ),
                        ));
                        break;
                    }
                }
            }
            Err(e) if e.starts_with("zinoma exited") => {
                failure = Some(("exit".into(), format!("zinoma --watch exited by itself: {}", e)));
            }
            Err(_) => {
                res.inconclusive = Some("still busy at budget".into());
            }
        }
    }
    // shut down
    z.signal(libc::SIGTERM);
    let out = z.wait(Duration::from_secs(10), false);
    res.nontrivial = in_flight_edit || !case.prebuilt;
    res.fingerprint = format!("{:?}|n={}|edges={}", classes, n, (0..n).map(|i| g.edges(i).len()).sum::<usize>());
    res.classes = classes.into_iter().collect();
    if excluded > 0 {
        res.classes.push("excluded-known-finding-placement".into());
    }
    res.sample = json!({"targets": (0..n).map(|i| format!("t{} <- {:?}", i, g.edges(i))).collect::<Vec<_>>(), "history": history});
    if let Some((sig, msg)) = failure {
        res.signature = Some(format!("bb-c06:{}", sig));
        res.replay = json!({"engine": "BB-c06", "case": serde_json::to_value(case).unwrap(), "message": msg, "history": history,
            "stderr_tail": out.stderr.lines().rev().take(8).collect::<Vec<_>>()});
        res.violation = Some(msg);
    }
    res
}

pub fn replay_c06(v: &Value, exclude: bool) -> Result<CaseResult, String> {
    let c: C06Case = serde_json::from_value(v["case"].clone()).map_err(|e| format!("bad C06 case: {}", e))?;
    Ok(eval_c06(&c, exclude))
}
