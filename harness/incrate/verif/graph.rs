//! Generated target graphs shared by the SIM and BB engines.

use crate::config::{ir, yaml};
use crate::domain::{Target, TargetId};
use proptest::prelude::*;
use serde::{Deserialize, Serialize};
use std::collections::{BTreeMap, BTreeSet, HashMap};

#[derive(Debug, Clone, Copy, PartialEq, Eq, Serialize, Deserialize, PartialOrd, Ord, Hash)]
pub enum Kind {
    Build,
    Service,
    Aggregate,
}

#[derive(Debug, Clone, Serialize, Deserialize, PartialEq, Eq, Hash)]
pub struct GT {
    pub proj: usize,
    pub kind: Kind,
    /// `dependencies:` entries (indices of earlier targets).
    pub deps: Vec<usize>,
    /// `X.output` inputs (indices of earlier *build* targets); never on aggregates.
    pub outdeps: Vec<usize>,
}

/// Acyclic by construction: target i only refers to targets j < i.
#[derive(Debug, Clone, Serialize, Deserialize, PartialEq, Eq, Hash)]
pub struct Graph {
    pub root_named: bool,
    pub nproj: usize,
    pub targets: Vec<GT>,
    /// Target names are numbered per project (`t0`, `t1`, ... in every project), so that
    /// different projects hold targets of the same name.
    #[serde(default)]
    pub homonyms: bool,
}

impl Graph {
    pub fn n(&self) -> usize {
        self.targets.len()
    }

    pub fn proj_name(&self, p: usize) -> Option<String> {
        if p == 0 {
            if self.root_named {
                Some("root".to_string())
            } else {
                None
            }
        } else {
            Some(format!("p{}", p))
        }
    }

    pub fn tname(&self, i: usize) -> String {
        if self.homonyms {
            let p = self.targets[i].proj;
            let rank = self.targets[..i].iter().filter(|t| t.proj == p).count();
            format!("t{}", rank)
        } else {
            format!("t{}", i)
        }
    }

    pub fn id(&self, i: usize) -> TargetId {
        TargetId {
            project_name: self.proj_name(self.targets[i].proj),
            target_name: self.tname(i),
        }
    }

    /// Display form of the id (what zinoma prints / what the SIM history uses).
    pub fn ids(&self, i: usize) -> String {
        self.id(i).to_string()
    }

    pub fn index_of(&self, id: &str) -> Option<usize> {
        (0..self.n()).find(|&i| self.ids(i) == id)
    }

    /// How target `from` spells a reference to target `to` in its project file.
    pub fn reference(&self, from: usize, to: usize) -> String {
        let (pf, pt) = (self.targets[from].proj, self.targets[to].proj);
        if pf == pt {
            // alternate between bare and qualified spelling when the project has a name
            match self.proj_name(pt) {
                Some(name) if (from + to) % 3 == 0 => format!("{}::{}", name, self.tname(to)),
                _ => self.tname(to),
            }
        } else {
            format!("{}::{}", self.proj_name(pt).expect("named"), self.tname(to))
        }
    }

    /// All direct edges of a target (dependencies ∪ X.output), deduplicated, sorted.
    pub fn edges(&self, i: usize) -> Vec<usize> {
        let t = &self.targets[i];
        let mut s: BTreeSet<usize> = t.deps.iter().copied().collect();
        s.extend(t.outdeps.iter().copied());
        s.into_iter().collect()
    }

    /// Reflexive-transitive dependency closure of the given roots.
    pub fn closure(&self, roots: &[usize]) -> BTreeSet<usize> {
        let mut seen = BTreeSet::new();
        let mut stack: Vec<usize> = roots.to_vec();
        while let Some(i) = stack.pop() {
            if seen.insert(i) {
                stack.extend(self.edges(i));
            }
        }
        seen
    }

    /// Direct dependencies with aggregates expanded transitively to non-aggregate leaves.
    pub fn leaf_deps(&self, i: usize) -> BTreeSet<usize> {
        let mut out = BTreeSet::new();
        let mut stack = self.edges(i);
        let mut seen = BTreeSet::new();
        while let Some(j) = stack.pop() {
            if !seen.insert(j) {
                continue;
            }
            if self.targets[j].kind == Kind::Aggregate {
                stack.extend(self.edges(j));
            } else {
                out.insert(j);
            }
        }
        out
    }

    /// Strict transitive dependencies.
    pub fn trans_deps(&self, i: usize) -> BTreeSet<usize> {
        let mut c = self.closure(&[i]);
        c.remove(&i);
        c
    }

    /// Does a real service stand behind this target (itself, or through aggregates only)?
    pub fn has_service_behind(&self, i: usize) -> bool {
        match self.targets[i].kind {
            Kind::Service => true,
            Kind::Build => false,
            Kind::Aggregate => self.edges(i).iter().any(|&j| self.has_service_behind(j)),
        }
    }

    /// Does a real build stand behind this target (itself, or through aggregates only)?
    pub fn has_build_behind(&self, i: usize) -> bool {
        match self.targets[i].kind {
            Kind::Build => true,
            Kind::Service => false,
            Kind::Aggregate => self.edges(i).iter().any(|&j| self.has_build_behind(j)),
        }
    }

    /// Shape classes (for the generator-health histogram in the evidence files).
    pub fn classes(&self, roots: &[usize]) -> Vec<&'static str> {
        let mut c = Vec::new();
        let clo = self.closure(roots);
        let mut dependents: BTreeMap<usize, usize> = BTreeMap::new();
        for &i in &clo {
            for j in self.edges(i) {
                *dependents.entry(j).or_default() += 1;
            }
        }
        if dependents.values().any(|&k| k >= 2) {
            c.push("shared-dep");
        }
        if self.homonyms {
            c.push("homonyms-across-projects");
        }
        if clo.iter().any(|&i| {
            self.targets[i].kind == Kind::Aggregate
                && self.edges(i).iter().any(|&j| self.targets[j].kind == Kind::Service)
        }) {
            c.push("aggregate-over-service");
        }
        if clo.iter().any(|&i| {
            self.targets[i].kind == Kind::Build
                && self.edges(i).iter().any(|&j| self.targets[j].kind == Kind::Service)
        }) {
            c.push("build-depends-on-service");
        }
        if clo.iter().any(|&i| {
            self.targets[i].kind == Kind::Aggregate
                && self.edges(i).iter().any(|&j| self.targets[j].kind == Kind::Aggregate)
        }) {
            c.push("nested-aggregate");
        }
        if clo
            .iter()
            .any(|&i| self.targets[i].kind == Kind::Aggregate && self.edges(i).is_empty())
        {
            c.push("empty-aggregate");
        }
        if clo.iter().any(|&i| {
            self.edges(i)
                .iter()
                .any(|&j| self.targets[j].proj != self.targets[i].proj)
        }) {
            c.push("multi-project-edge");
        }
        if clo.iter().any(|&i| !self.targets[i].outdeps.is_empty()) {
            c.push("output-edge");
        }
        let rs: BTreeSet<usize> = roots.iter().copied().collect();
        if rs.iter().any(|&r| rs.iter().any(|&q| q != r && self.trans_deps(q).contains(&r))) {
            c.push("requested-dep-and-dependent");
        }
        if roots.len() != rs.len() {
            c.push("duplicate-request");
        }
        // diamond: some target reachable from a root by two different direct edges of one node
        if clo.iter().any(|&i| {
            let e = self.edges(i);
            e.iter().any(|&a| {
                e.iter()
                    .any(|&b| a != b && !self.closure(&[a]).is_disjoint(&self.closure(&[b])))
            })
        }) {
            c.push("diamond");
        }
        if clo.len() >= 8 {
            c.push("closure>=8");
        }
        c
    }

    /// yaml::Project values with the given scripts (index -> script text); used by SIM
    /// (scripts irrelevant) and, serialised by hand, by BB.
    pub fn to_yaml_config(&self) -> yaml::Config {
        let mut projects: HashMap<std::path::PathBuf, yaml::Project> = HashMap::new();
        for p in 0..self.nproj {
            let mut targets = HashMap::new();
            for (i, t) in self.targets.iter().enumerate() {
                if t.proj != p {
                    continue;
                }
                let dependencies =
                    yaml::Dependencies(t.deps.iter().map(|&j| self.reference(i, j)).collect());
                let input = yaml::InputResources(
                    t.outdeps
                        .iter()
                        .map(|&j| {
                            yaml::InputResource::DependencyOutput(format!(
                                "{}.output",
                                self.reference(i, j)
                            ))
                        })
                        .collect(),
                );
                let yt = match t.kind {
                    Kind::Build => yaml::Target::Build {
                        dependencies,
                        build: ":".to_string(),
                        input,
                        output: yaml::OutputResources(vec![]),
                    },
                    Kind::Service => yaml::Target::Service {
                        dependencies,
                        service: ":".to_string(),
                        input,
                    },
                    Kind::Aggregate => yaml::Target::Aggregate { dependencies },
                };
                targets.insert(self.tname(i), yt);
            }
            let mut imports = HashMap::new();
            if p == 0 {
                for q in 1..self.nproj {
                    imports.insert(format!("p{}", q), format!("p{}", q));
                }
            }
            projects.insert(
                Self::proj_dir(p),
                yaml::Project {
                    targets,
                    name: self.proj_name(p),
                    imports,
                },
            );
        }
        yaml::Config {
            root_project_dir: Self::proj_dir(0),
            projects,
        }
    }

    pub fn proj_dir(p: usize) -> std::path::PathBuf {
        if p == 0 {
            std::path::PathBuf::from("/zv-sim")
        } else {
            std::path::PathBuf::from(format!("/zv-sim/p{}", p))
        }
    }

    /// Through the real resolver.
    pub fn resolve(&self, roots: &[usize]) -> anyhow::Result<HashMap<TargetId, Target>> {
        let config: ir::Config = self.to_yaml_config().into();
        let root_ids: Vec<TargetId> = roots.iter().map(|&r| self.id(r)).collect();
        config.try_into_domain_targets(&root_ids)
    }
}

/// Raw material from which a graph is *constructed* (no rejection): shrinking any number
/// towards zero removes edges / projects / targets.
#[derive(Debug, Clone)]
pub struct RawGraph {
    pub root_named: bool,
    pub nproj: u8,
    pub density: u8,
    pub nodes: Vec<(u8, u8, Vec<u8>)>,
}

pub fn raw_graph(max_n: usize) -> impl Strategy<Value = RawGraph> {
    (
        any::<bool>(),
        0u8..3,
        0u8..4,
        prop::collection::vec(
            (0u8..10, 0u8..6, prop::collection::vec(any::<u8>(), max_n)),
            1..=max_n,
        ),
    )
        .prop_map(|(root_named, nproj, density, nodes)| RawGraph {
            root_named,
            nproj,
            density,
            nodes,
        })
}

pub fn build_graph(raw: &RawGraph) -> Graph {
    let nproj = 1 + raw.nproj as usize;
    // edge iff byte >= threshold
    let threshold: u16 = match raw.density {
        0 => 230,
        1 => 190,
        2 => 140,
        _ => 90,
    };
    let mut g = Graph {
        root_named: raw.root_named,
        nproj,
        homonyms: nproj > 1 && raw.nodes.first().is_some_and(|n| n.0 % 2 == 1),
        targets: Vec::new(),
    };
    for (i, (k, p, edges)) in raw.nodes.iter().enumerate() {
        let kind = match k {
            0..=5 => Kind::Build,
            6..=7 => Kind::Service,
            _ => Kind::Aggregate,
        };
        let proj = (*p as usize) % nproj;
        let mut deps = Vec::new();
        let mut outdeps = Vec::new();
        for j in 0..i {
            let b = edges[j] as u16;
            if b < threshold {
                continue;
            }
            // a reference across projects needs a named destination project
            let pj = g.targets[j].proj;
            if pj != proj && g.proj_name(pj).is_none() {
                continue;
            }
            let out_ok = kind != Kind::Aggregate && g.targets[j].kind == Kind::Build;
            match (b % 3, out_ok) {
                (0, _) | (_, false) => deps.push(j),
                (1, true) => outdeps.push(j),
                (_, true) => {
                    deps.push(j);
                    outdeps.push(j);
                }
            }
            if deps.len() + outdeps.len() >= 6 {
                break;
            }
        }
        g.targets.push(GT {
            proj,
            kind,
            deps,
            outdeps,
        });
    }
    g
}

/// Requested roots chosen from selector bytes: non-empty, may contain duplicates and a
/// dependency together with its dependent.
pub fn pick_roots(g: &Graph, sel: &[u8]) -> Vec<usize> {
    let n = g.n();
    let mut roots = Vec::new();
    for (k, &b) in sel.iter().enumerate() {
        // monotone mapping: index = b * n / 256
        let idx = (b as usize * n) >> 8;
        // favour late targets (they have dependencies) for the first pick
        let idx = if k == 0 { n - 1 - idx } else { idx };
        roots.push(idx);
    }
    if roots.is_empty() {
        roots.push(n - 1);
    }
    roots
}
