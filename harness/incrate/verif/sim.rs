//! SIM engine: the real actor code (engine::run, TargetActors, the three actors, the relay
//! loops) polled by a single-threaded LocalPool; processes are virtual; the *schedule* (which
//! enabled stimulus happens next) is a generated value.

use super::graph::*;
use super::hooks::{self, with_sim, Decision, Ev, Outcome, SimState, SIM};
use crate::domain::TargetId;
use crate::engine::verif_access::{
    ActorId, ActorInputMessage, ExecutionKind, TargetActorOutputMessage, TargetInvalidatedMessage,
};
use crate::engine::{self, TargetActors, WatchOption};
use crate::TerminationMessage;
use async_std::channel;
use futures::executor::LocalPool;
use futures::task::LocalSpawnExt;
use proptest::prelude::*;
use serde::{Deserialize, Serialize};
use std::collections::{BTreeMap, BTreeSet, VecDeque};

#[derive(Debug, Clone, Serialize, Deserialize)]
pub struct SimCase {
    pub graph: Graph,
    pub roots: Vec<usize>,
    pub watch: bool,
    /// Per target: a current record exists at time zero (one-shot "skipped" answers).
    pub uptodate: Vec<bool>,
    /// Per target: 0 never fails; 1 script always exits non-zero; 2 cannot be launched;
    /// 3 script fails on its first run only; 4 script succeeds once, then fails every time.
    pub fail: Vec<u8>,
    /// Watch mode: targets that receive one file-change notice each (schedule decides when).
    pub notices: Vec<usize>,
    /// Termination signal is a schedulable stimulus from the beginning.
    pub early_term: bool,
    /// Scripts finish only when nothing else is enabled (antichains stay "running").
    pub withhold: bool,
    pub sched: Vec<u16>,
}

#[derive(Debug, Clone)]
pub struct SimRun {
    pub events: Vec<Ev>,
    pub immediate: Vec<String>,
    /// `engine::run` had returned when the system first became quiescent with nothing left to
    /// do but terminate (None if that point was never reached, e.g. early termination).
    pub run_done_at_final_quiescence: Option<bool>,
    pub final_quiescence_index: Option<usize>,
    pub terminated_clean: bool,
    pub steps: usize,
    pub step_bound_hit: bool,
    pub actors_spawned: usize,
    pub actors_exited: usize,
    /// Model: record (capture) of each target at the end.
    pub recorded: BTreeMap<String, Vec<u64>>,
    pub final_capture: BTreeMap<String, Vec<u64>>,
    pub svc_capture: BTreeMap<String, Vec<u64>>,
    pub config_error: Option<String>,
}

fn sender_of(msg: &TargetActorOutputMessage) -> String {
    match msg {
        TargetActorOutputMessage::TargetExecutionError(id, _) => id.to_string(),
        TargetActorOutputMessage::MessageActor { msg, .. } => match msg {
            ActorInputMessage::Requested { requester, .. }
            | ActorInputMessage::Unrequested { requester, .. } => actor_str(requester),
            ActorInputMessage::Ok { target_id, .. }
            | ActorInputMessage::Invalidated { target_id, .. } => target_id.to_string(),
        },
    }
}

fn actor_str(a: &ActorId) -> String {
    match a {
        ActorId::Root => "<root>".to_string(),
        ActorId::Target(t) => t.to_string(),
    }
}

fn kind_str(k: &ExecutionKind) -> &'static str {
    match k {
        ExecutionKind::Build => "Build",
        ExecutionKind::Service => "Service",
    }
}

pub fn msg_str(msg: &ActorInputMessage) -> String {
    match msg {
        ActorInputMessage::Requested { kind, .. } => format!("Requested:{}", kind_str(kind)),
        ActorInputMessage::Unrequested { kind, .. } => format!("Unrequested:{}", kind_str(kind)),
        ActorInputMessage::Ok { kind, actual, .. } => {
            format!("Ok:{}:{}", kind_str(kind), if *actual { "actual" } else { "none" })
        }
        ActorInputMessage::Invalidated { kind, .. } => format!("Invalidated:{}", kind_str(kind)),
    }
}

#[derive(Debug, Clone, PartialEq)]
enum Stim {
    Forward(String, usize),
    Decide(String),
    Finish(String),
    Notify(usize),
    FsNotify(String),
    Terminate,
}

struct Model {
    in_ver: BTreeMap<String, u64>,
    out_ver: BTreeMap<String, u64>,
    producers: BTreeMap<String, Vec<String>>,
    consumers: BTreeMap<String, Vec<String>>,
    recorded: BTreeMap<String, Vec<u64>>,
    run_capture: BTreeMap<String, Vec<u64>>,
    svc_capture: BTreeMap<String, Vec<u64>>,
    runs: BTreeMap<String, u32>,
}

impl Model {
    fn capture(&self, t: &str) -> Vec<u64> {
        let mut c = vec![*self.in_ver.get(t).unwrap_or(&0)];
        if let Some(ps) = self.producers.get(t) {
            for p in ps {
                c.push(*self.out_ver.get(p).unwrap_or(&0));
            }
        }
        c
    }
}

const STEP_BOUND: usize = 4_000;

pub fn run_case(case: &SimCase) -> SimRun {
    let g = &case.graph;
    let mut pool = LocalPool::new();
    let spawner = pool.spawner();

    let spawn_fail: BTreeSet<String> = (0..g.n())
        .filter(|&i| case.fail.get(i).copied().unwrap_or(0) == 2)
        .map(|i| g.ids(i))
        .collect();
    SIM.with(|s| {
        *s.borrow_mut() = Some(SimState {
            spawner: spawner.clone(),
            events: Vec::new(),
            pending_checks: BTreeMap::new(),
            running: BTreeMap::new(),
            live_services: BTreeSet::new(),
            inval: BTreeMap::new(),
            spawn_fail,
            immediate: Vec::new(),
            actors_spawned: 0,
            actors_exited: 0,
        })
    });

    let mut model = Model {
        in_ver: BTreeMap::new(),
        out_ver: BTreeMap::new(),
        producers: BTreeMap::new(),
        consumers: BTreeMap::new(),
        recorded: BTreeMap::new(),
        run_capture: BTreeMap::new(),
        svc_capture: BTreeMap::new(),
        runs: BTreeMap::new(),
    };
    for i in 0..g.n() {
        let ps: Vec<String> = g.targets[i].outdeps.iter().map(|&j| g.ids(j)).collect();
        for p in &ps {
            model.consumers.entry(p.clone()).or_default().push(g.ids(i));
        }
        model.producers.insert(g.ids(i), ps);
    }
    for i in 0..g.n() {
        if case.uptodate.get(i).copied().unwrap_or(false) && g.targets[i].kind == Kind::Build {
            let c = model.capture(&g.ids(i));
            model.recorded.insert(g.ids(i), c);
        }
    }

    let empty_run = |config_error: Option<String>| SimRun {
        events: vec![],
        immediate: vec![],
        run_done_at_final_quiescence: None,
        final_quiescence_index: None,
        terminated_clean: false,
        steps: 0,
        step_bound_hit: false,
        actors_spawned: 0,
        actors_exited: 0,
        recorded: BTreeMap::new(),
        final_capture: BTreeMap::new(),
        svc_capture: BTreeMap::new(),
        config_error,
    };

    let targets = match g.resolve(&case.roots) {
        Ok(t) => t,
        Err(e) => {
            SIM.with(|s| *s.borrow_mut() = None);
            return empty_run(Some(format!("{:#}", e)));
        }
    };
    let root_ids: Vec<TargetId> = case.roots.iter().map(|&r| g.id(r)).collect();
    let watch_option: WatchOption = case.watch.into();

    let (a_tx, a_rx) = channel::unbounded::<TargetActorOutputMessage>();
    let (b_tx, b_rx) = channel::unbounded::<TargetActorOutputMessage>();
    let (term_tx, term_rx) = channel::bounded::<TerminationMessage>(1);
    let mut actors = TargetActors::new(targets, a_tx, watch_option);

    // Same sequence as `main()`: run, then terminate, then look at the result.
    spawner
        .spawn_local(async move {
            let result = engine::run(root_ids, watch_option, &mut actors, term_rx, b_rx).await;
            with_sim(|s| {
                s.events
                    .push(Ev::RunDone(result.map_err(|e| format!("{:#}", e))))
            });
            actors.terminate().await;
            with_sim(|s| s.events.push(Ev::Terminated));
        })
        .expect("spawn main");

    let mut queues: BTreeMap<String, VecDeque<Vec<TargetActorOutputMessage>>> = BTreeMap::new();
    let mut notices_left: Vec<Option<usize>> = case.notices.iter().map(|&n| Some(n)).collect();
    let mut fs_notices: VecDeque<String> = VecDeque::new();
    let mut term_sent = false;
    let mut sched_pos = 0usize;
    let mut steps = 0usize;
    let mut scanned = 0usize;
    let mut run_done = false;
    let mut main_done = false;
    let mut run_done_at_final_quiescence = None;
    let mut final_quiescence_index = None;
    let mut step_bound_hit = false;
    let mut terminated_clean = false;

    loop {
        pool.run_until_stalled();

        // Drain what the actors sent to the relay channel into per-sender queues.
        // Messages fanned out to the requester set leave in the iteration order of a std
        // HashSet (random per process): such a run of identical Ok / Invalidated messages to
        // distinct destinations is kept as an unordered *group*, sorted canonically, and the
        // schedule picks the order - every order the real code can produce, reproducibly.
        let mut batch: Vec<TargetActorOutputMessage> = Vec::new();
        while let Ok(m) = a_rx.try_recv() {
            batch.push(m);
        }
        let mut last_key: Option<(String, String)> = None;
        let mut new_groups: Vec<(String, Vec<(String, TargetActorOutputMessage)>)> = Vec::new();
        for m in batch {
            let sender = sender_of(&m);
            let (dest, what, fanout) = match &m {
                TargetActorOutputMessage::MessageActor { dest, msg } => (
                    actor_str(dest),
                    msg_str(msg),
                    matches!(
                        msg,
                        ActorInputMessage::Ok { .. } | ActorInputMessage::Invalidated { .. }
                    ),
                ),
                TargetActorOutputMessage::TargetExecutionError(..) => {
                    ("<run-loop>".to_string(), "error".to_string(), false)
                }
            };
            let key = (sender.clone(), what.clone());
            let joins = fanout
                && last_key.as_ref() == Some(&key)
                && new_groups
                    .last()
                    .is_some_and(|(_, g)| g.iter().all(|(d, _)| *d != dest));
            if joins {
                new_groups.last_mut().unwrap().1.push((dest, m));
            } else {
                new_groups.push((sender.clone(), vec![(dest, m)]));
            }
            last_key = if fanout { Some(key) } else { None };
        }
        for (sender, mut group) in new_groups {
            group.sort_by(|a, b| a.0.cmp(&b.0));
            for (dest, m) in &group {
                if let TargetActorOutputMessage::MessageActor { msg, .. } = m {
                    let ev = Ev::Sent {
                        from: sender.clone(),
                        to: dest.clone(),
                        what: msg_str(msg),
                    };
                    with_sim(|s| s.events.push(ev));
                }
            }
            queues
                .entry(sender)
                .or_default()
                .push_back(group.into_iter().map(|(_, m)| m).collect());
        }

        // Process the events appended since the last quiescent point (model updates).
        let new_events: Vec<Ev> = with_sim(|s| s.events[scanned..].to_vec());
        scanned += new_events.len();
        for ev in &new_events {
            match ev {
                Ev::Finish(t, true) => {
                    *model.out_ver.entry(t.clone()).or_default() += 1;
                    *model.runs.entry(t.clone()).or_default() += 1;
                    if case.watch {
                        // the producer's output files changed: consumers' watchers fire
                        if let Some(cs) = model.consumers.get(t) {
                            for c in cs {
                                fs_notices.push_back(c.clone());
                            }
                        }
                    }
                }
                Ev::Finish(t, false) => {
                    *model.runs.entry(t.clone()).or_default() += 1;
                }
                Ev::Completed(t) => {
                    if let Some(c) = model.run_capture.get(t).cloned() {
                        model.recorded.insert(t.clone(), c);
                    }
                }
                Ev::SvcStart(t) => {
                    let c = model.capture(t);
                    model.svc_capture.insert(t.clone(), c);
                }
                Ev::RunDone(_) => run_done = true,
                Ev::Terminated => main_done = true,
                _ => {}
            }
        }
        if main_done {
            terminated_clean = true;
            if run_done_at_final_quiescence.is_none() && !term_sent {
                // the run returned and shutdown completed within one step
                run_done_at_final_quiescence = Some(true);
                final_quiescence_index = with_sim(|s| {
                    s.events.iter().position(|e| matches!(e, Ev::RunDone(_)))
                });
            }
            break;
        }

        // Enabled stimuli, in a fixed order, with weights.
        let mut enabled: Vec<(Stim, u32)> = Vec::new();
        if !run_done {
            for (sender, q) in &queues {
                if let Some(group) = q.front() {
                    for k in 0..group.len() {
                        enabled.push((Stim::Forward(sender.clone(), k), 6));
                    }
                }
            }
        } else {
            // nobody reads the relay channel any more: messages are dropped
            queues.clear();
        }
        let (pending_checks, running): (Vec<String>, Vec<String>) = with_sim(|s| {
            (
                s.pending_checks.keys().cloned().collect(),
                s.running.keys().cloned().collect(),
            )
        });
        for t in &pending_checks {
            enabled.push((Stim::Decide(t.clone()), 4));
        }
        let others_enabled = !enabled.is_empty();
        if !(case.withhold && others_enabled) {
            for t in &running {
                enabled.push((Stim::Finish(t.clone()), 3));
            }
        }
        if case.watch && !run_done {
            for (k, n) in notices_left.iter().enumerate() {
                if let Some(i) = n {
                    // only targets whose actor exists can be notified (watchers are created
                    // with the actor)
                    let id = g.ids(*i);
                    if with_sim(|s| s.inval.contains_key(&id)) {
                        enabled.push((Stim::Notify(k), 1));
                    }
                }
            }
            if let Some(c) = fs_notices.front() {
                enabled.push((Stim::FsNotify(c.clone()), 2));
            }
        }
        let pending_msgs: usize = queues
            .values()
            .map(|q| q.iter().map(|g| g.len()).sum::<usize>())
            .sum();
        with_sim(|s| {
            s.events.push(Ev::Quiescent {
                pending_msgs,
                pending_decisions: pending_checks.len(),
                running: running.len(),
            })
        });
        scanned += 1;

        let nothing_but_terminate = enabled.is_empty();
        if nothing_but_terminate && run_done_at_final_quiescence.is_none() && !term_sent {
            run_done_at_final_quiescence = Some(run_done);
            final_quiescence_index = Some(with_sim(|s| s.events.len()));
        }
        if !term_sent && !run_done && (case.early_term || nothing_but_terminate) {
            enabled.push((Stim::Terminate, 1));
        }

        if enabled.is_empty() {
            // Only the final join of the actor tasks (cross-thread wake-up of the async-std
            // JoinHandles) can be outstanding. Give it a bounded amount of real time.
            // (after three such timeouts in this process the wait is cut to 30 ms: the code under
            // test then blocks on something outside the harness, and every case would pay it)
            static TIMEOUTS: std::sync::atomic::AtomicU32 = std::sync::atomic::AtomicU32::new(0);
            let long = TIMEOUTS.load(std::sync::atomic::Ordering::Relaxed) < 3;
            let deadline = std::time::Instant::now()
                + if long { std::time::Duration::from_secs(2) } else { std::time::Duration::from_millis(30) };
            let mut ok = false;
            while std::time::Instant::now() < deadline {
                pool.run_until_stalled();
                if with_sim(|s| s.events.iter().any(|e| *e == Ev::Terminated)) {
                    ok = true;
                    break;
                }
                if !run_done {
                    break;
                }
                std::thread::sleep(std::time::Duration::from_micros(50));
            }
            if !ok && run_done {
                TIMEOUTS.fetch_add(1, std::sync::atomic::Ordering::Relaxed);
            }
            terminated_clean = ok;
            break;
        }

        steps += 1;
        if steps > STEP_BOUND {
            step_bound_hit = true;
            break;
        }

        let total: u64 = enabled.iter().map(|(_, w)| *w as u64).sum();
        let s = if sched_pos < case.sched.len() {
            case.sched[sched_pos] as u64
        } else {
            0
        };
        sched_pos += 1;
        let mut r = (s * total) >> 16;
        let mut chosen = enabled[0].0.clone();
        for (st, w) in &enabled {
            if r < *w as u64 {
                chosen = st.clone();
                break;
            }
            r -= *w as u64;
        }

        match chosen {
            Stim::Forward(sender, k) => {
                let q = queues.get_mut(&sender).unwrap();
                let m = q.front_mut().unwrap().remove(k);
                if q.front().unwrap().is_empty() {
                    q.pop_front();
                }
                let ev = match &m {
                    TargetActorOutputMessage::TargetExecutionError(id, _) => {
                        Ev::ForwardError(id.to_string())
                    }
                    TargetActorOutputMessage::MessageActor { dest, msg } => Ev::Forward {
                        from: sender.clone(),
                        to: actor_str(dest),
                        what: msg_str(msg),
                    },
                };
                with_sim(|s| s.events.push(ev));
                let _ = b_tx.try_send(m);
            }
            Stim::Decide(t) => {
                let cap = model.capture(&t);
                let decision = if model.recorded.get(&t) == Some(&cap) {
                    Decision::Skip
                } else {
                    model.run_capture.insert(t.clone(), cap);
                    model.recorded.remove(&t);
                    Decision::Run
                };
                with_sim(|s| {
                    s.events.push(Ev::Stim(format!("decide {} {:?}", t, decision)));
                    if let Some(tx) = s.pending_checks.remove(&t) {
                        let _ = tx.send(decision);
                    }
                });
            }
            Stim::Finish(t) => {
                let idx = g.index_of(&t);
                let mode = idx.and_then(|i| case.fail.get(i).copied()).unwrap_or(0);
                let nth = *model.runs.get(&t).unwrap_or(&0);
                let outcome = match mode {
                    1 => Outcome::Fail,
                    3 if nth == 0 => Outcome::Fail,
                    4 if nth >= 1 => Outcome::Fail,
                    _ => Outcome::Ok,
                };
                with_sim(|s| {
                    s.events.push(Ev::Stim(format!("finish {} {:?}", t, outcome)));
                    if let Some(tx) = s.running.remove(&t) {
                        let _ = tx.send(outcome);
                    }
                });
            }
            Stim::Notify(k) => {
                let i = notices_left[k].take().unwrap();
                let id = g.ids(i);
                *model.in_ver.entry(id.clone()).or_default() += 1;
                with_sim(|s| {
                    s.events.push(Ev::Notify(id.clone()));
                    if let Some(tx) = s.inval.get(&id) {
                        let _ = tx.try_send(TargetInvalidatedMessage);
                    }
                });
            }
            Stim::FsNotify(c) => {
                fs_notices.pop_front();
                with_sim(|s| {
                    s.events.push(Ev::Stim(format!("fs-notify {}", c)));
                    if let Some(tx) = s.inval.get(&c) {
                        let _ = tx.try_send(TargetInvalidatedMessage);
                    }
                });
            }
            Stim::Terminate => {
                term_sent = true;
                with_sim(|s| s.events.push(Ev::TermSent));
                let _ = term_tx.try_send(TerminationMessage);
            }
        }
    }

    let mut final_capture = BTreeMap::new();
    for i in 0..g.n() {
        final_capture.insert(g.ids(i), model.capture(&g.ids(i)));
    }
    let st = SIM.with(|s| s.borrow_mut().take()).expect("sim state");
    // Dropping the pool drops every task (actors blocked for ever included).
    drop(pool);
    SimRun {
        events: st.events,
        immediate: st.immediate,
        run_done_at_final_quiescence,
        final_quiescence_index,
        terminated_clean,
        steps,
        step_bound_hit,
        actors_spawned: st.actors_spawned,
        actors_exited: st.actors_exited,
        recorded: model.recorded,
        final_capture,
        svc_capture: model.svc_capture,
        config_error: None,
    }
}

// ---------------------------------------------------------------------------
// Generator

#[derive(Debug, Clone, Copy)]
pub struct SimParams {
    pub max_n: usize,
    /// 0 = never, 1 = sometimes, 2 = always
    pub watch: u8,
    pub failures: u8,
    pub early_term: u8,
    pub withhold: u8,
    pub max_notices: usize,
    pub sched_len: usize,
}

pub fn sim_case(p: SimParams) -> impl Strategy<Value = SimCase> {
    (
        raw_graph(p.max_n),
        prop::collection::vec(any::<u8>(), 1..=3),
        any::<u8>(),
        prop::collection::vec(any::<u8>(), p.max_n),
        prop::collection::vec(any::<u8>(), p.max_n),
        prop::collection::vec(any::<u8>(), 0..=p.max_notices),
        (any::<u8>(), any::<u8>(), any::<u8>()),
        prop::collection::vec(any::<u16>(), 0..=p.sched_len),
    )
        .prop_map(
            move |(raw, rootsel, watch_b, upto, fail, notices, (term_b, withhold_b, template_b), sched)| {
                // one case in five starts from a hand-picked shape that random generation reaches
                // rarely (extra random targets are appended after it)
                let mut graph = match template_graph(template_b, &raw) {
                    Some(g) => g,
                    None => build_graph(&raw),
                };
                graph.targets.truncate(p.max_n);
                let n = graph.n();
                let roots = pick_roots(&graph, &rootsel);
                let watch = match p.watch {
                    0 => false,
                    2 => true,
                    _ => watch_b >= 128,
                };
                let fail: Vec<u8> = (0..n)
                    .map(|i| {
                        if p.failures == 0 {
                            0
                        } else {
                            let b = fail[i];
                            // high bytes fail; shrinking towards 0 removes failures
                            match graph.targets[i].kind {
                                Kind::Build if b >= 245 => 2,
                                Kind::Build if b >= 235 && watch => 4,
                                Kind::Build if b >= 225 => 3,
                                Kind::Build if b >= 195 => 1,
                                Kind::Service if b >= 215 => 2,
                                _ => 0,
                            }
                        }
                    })
                    .collect();
                // a target that must fail has no current record (it would be skipped)
                let uptodate = (0..n).map(|i| upto[i] >= 170 && fail[i] == 0).collect();
                let notices = if watch {
                    notices.iter().map(|&b| (b as usize * n) >> 8).collect()
                } else {
                    vec![]
                };
                let early_term = match p.early_term {
                    0 => false,
                    2 => true,
                    _ => term_b >= 200,
                };
                let withhold = match p.withhold {
                    0 => false,
                    2 => true,
                    _ => withhold_b >= 150,
                };
                SimCase {
                    graph,
                    roots,
                    watch,
                    uptodate,
                    fail,
                    notices,
                    early_term,
                    withhold,
                    sched,
                }
            },
        )
}

// ---------------------------------------------------------------------------
// Helpers over histories

pub struct Hist<'a> {
    pub case: &'a SimCase,
    pub run: &'a SimRun,
}

impl<'a> Hist<'a> {
    pub fn g(&self) -> &Graph {
        &self.case.graph
    }
    pub fn closure(&self) -> BTreeSet<usize> {
        self.g().closure(&self.case.roots)
    }
    pub fn count(&self, f: impl Fn(&Ev) -> bool) -> usize {
        self.run.events.iter().filter(|e| f(e)).count()
    }
    pub fn first(&self, f: impl Fn(&Ev) -> bool) -> Option<usize> {
        self.run.events.iter().position(|e| f(e))
    }
    pub fn last(&self, f: impl Fn(&Ev) -> bool) -> Option<usize> {
        self.run.events.iter().rposition(|e| f(e))
    }
    pub fn last_before(&self, k: usize, f: impl Fn(&Ev) -> bool) -> Option<usize> {
        self.run.events[..k].iter().rposition(|e| f(e))
    }
    pub fn any_failure_event(&self) -> bool {
        self.run.events.iter().any(|e| {
            matches!(
                e,
                Ev::Finish(_, false) | Ev::SpawnFail(_) | Ev::SvcSpawnFail(_)
            )
        })
    }
    pub fn actually_failed(&self) -> BTreeSet<String> {
        self.run
            .events
            .iter()
            .filter_map(|e| match e {
                Ev::Finish(t, false) | Ev::SpawnFail(t) | Ev::SvcSpawnFail(t) => Some(t.clone()),
                _ => None,
            })
            .collect()
    }
    /// Build done (skipped or completed) / service started, before index k.
    pub fn ready_before(&self, i: usize, k: usize) -> bool {
        let id = self.g().ids(i);
        match self.g().targets[i].kind {
            Kind::Build => self.run.events[..k]
                .iter()
                .any(|e| matches!(e, Ev::Skipped(t) | Ev::Completed(t) if *t == id)),
            Kind::Service => self.run.events[..k]
                .iter()
                .any(|e| matches!(e, Ev::SvcStart(t) if *t == id)),
            Kind::Aggregate => self
                .g()
                .leaf_deps(i)
                .iter()
                .all(|&j| self.ready_before(j, k)),
        }
    }
    pub fn term_sent_index(&self) -> Option<usize> {
        self.first(|e| *e == Ev::TermSent)
    }
    pub fn run_done_index(&self) -> Option<usize> {
        self.first(|e| matches!(e, Ev::RunDone(_)))
    }
    pub fn run_result(&self) -> Option<&std::result::Result<(), String>> {
        self.run.events.iter().find_map(|e| match e {
            Ev::RunDone(r) => Some(r),
            _ => None,
        })
    }
    /// "Begun" = the build cycle began or the service was started.
    pub fn begun_before(&self, i: usize, k: usize) -> bool {
        let id = self.g().ids(i);
        self.run.events[..k].iter().any(|e| {
            matches!(e, Ev::CheckBegin(t) | Ev::SvcStart(t) | Ev::SvcSpawnFail(t) if *t == id)
        })
    }
    pub fn requested_before(&self, i: usize, k: usize) -> bool {
        if self.case.roots.contains(&i) {
            return true;
        }
        let id = self.g().ids(i);
        self.run.events[..k].iter().any(|e| {
            matches!(e, Ev::Forward { to, what, .. } if *to == id && what.starts_with("Requested"))
        })
    }
    /// Has a target a declared-failing target among its strict transitive dependencies?
    pub fn depends_on_declared_failure(&self, i: usize) -> bool {
        self.g()
            .trans_deps(i)
            .iter()
            .any(|&j| self.case.fail.get(j).copied().unwrap_or(0) != 0)
    }
}

/// Human-readable rendering of a history (for replay files).
pub fn render_events(events: &[Ev]) -> Vec<String> {
    events.iter().map(|e| format!("{:?}", e)).collect()
}

/// Shapes worth reaching often: late requester through paths of different length, aggregate
/// mixing a build side and a service side below a build, service behind nested aggregates,
/// producer chain. `sel` >= 51 means "no template" (4 cases in 5).
pub fn template_graph(sel: u8, raw: &RawGraph) -> Option<Graph> {
    if sel >= 51 {
        return None;
    }
    let t = |kind: Kind, deps: Vec<usize>, outdeps: Vec<usize>| GT {
        proj: 0,
        kind,
        deps,
        outdeps,
    };
    let mut targets = match sel % 6 {
        0 => vec![
            // T(4) -> G(3) -> {B(2), S(1) -> D(0)}
            t(Kind::Build, vec![], vec![]),
            t(Kind::Service, vec![0], vec![]),
            t(Kind::Build, vec![], vec![]),
            t(Kind::Aggregate, vec![2, 1], vec![]),
            t(Kind::Build, vec![3], vec![]),
        ],
        1 => vec![
            // top(3) -> {base(0), hop2(2) -> hop1(1) -> base}
            t(Kind::Build, vec![], vec![]),
            t(Kind::Aggregate, vec![0], vec![]),
            t(Kind::Aggregate, vec![1], vec![]),
            t(Kind::Build, vec![0, 2], vec![]),
        ],
        2 => vec![
            // service behind nested aggregates next to a build
            t(Kind::Service, vec![], vec![]),
            t(Kind::Aggregate, vec![0], vec![]),
            t(Kind::Build, vec![], vec![]),
            t(Kind::Aggregate, vec![1, 2], vec![]),
        ],
        3 => vec![
            // producer chain with a shared producer
            t(Kind::Build, vec![], vec![]),
            t(Kind::Build, vec![], vec![0]),
            t(Kind::Build, vec![0], vec![1]),
            t(Kind::Service, vec![2], vec![0]),
        ],
        4 => vec![
            // two services, one depending on the other, under an aggregate with a build
            t(Kind::Build, vec![], vec![]),
            t(Kind::Service, vec![0], vec![]),
            t(Kind::Service, vec![1], vec![]),
            t(Kind::Aggregate, vec![2, 0], vec![]),
        ],
        _ => vec![
            // wide fan-in on one target through aggregates of different depth
            t(Kind::Build, vec![], vec![]),
            t(Kind::Aggregate, vec![0], vec![]),
            t(Kind::Aggregate, vec![0, 1], vec![]),
            t(Kind::Build, vec![1], vec![0]),
            t(Kind::Aggregate, vec![2, 3], vec![]),
        ],
    };
    // a few random extra targets on top (they may depend on the template)
    let extra = build_graph(raw);
    let base = targets.len();
    for (k, e) in extra.targets.iter().enumerate().take(3) {
        let mut deps: Vec<usize> = e.deps.iter().map(|&d| if d < k { base + d } else { d % base }).collect();
        deps.push(base - 1 - (k % base));
        deps.sort();
        deps.dedup();
        targets.push(GT {
            proj: 0,
            kind: e.kind,
            deps,
            outdeps: vec![],
        });
    }
    Some(Graph {
        root_named: raw.root_named,
        nproj: 1,
        targets,
        homonyms: false,
    })
}
