//! Generated file trees and an independent reference walker (written from the statement of
//! C15, not by calling zinoma's lister).

use proptest::prelude::*;
use serde::{Deserialize, Serialize};
use std::collections::{BTreeMap, BTreeSet};
use std::ffi::OsString;
use std::os::unix::ffi::{OsStrExt, OsStringExt};
use std::path::{Path, PathBuf};

#[derive(Debug, Clone, Serialize, Deserialize, PartialEq, Eq)]
pub enum TKind {
    File(u8),
    Dir,
    /// Symlink to another entry of the tree (index), to something outside, or to nothing.
    LinkTo(usize),
    LinkOutsideFile,
    LinkOutsideDir,
    Dangling,
}

#[derive(Debug, Clone, Serialize, Deserialize)]
pub struct TEntry {
    /// Path components (raw bytes: names need not be UTF-8).
    pub path: Vec<Vec<u8>>,
    pub kind: TKind,
}

#[derive(Debug, Clone, Serialize, Deserialize)]
pub struct TreeSpec {
    pub entries: Vec<TEntry>,
}

pub const DIR_NAMES: [&[u8]; 7] = [b"src", b"lib", b"a.d", b".zinoma", b"deep", b"s p", b"x.rs"];
pub const FILE_NAMES: [&[u8]; 18] = [
    b"a.rs",
    b"b.txt",
    b".hidden",
    b"x.tar.gz",
    b".rs",
    b"rs",
    b"foo_rs",
    b"bad\xff.rs",
    b"\xfe\xfd",
    b"t.rs~",
    b".t.rs.swp",
    b"Makefile",
    b"c.RS",
    b"\xc3\xa9.rs",
    b"x.rs.bak",
    b"new\nline.rs",
    b"gz",
    b".tar.gz",
];

pub fn class_of_name(name: &[u8]) -> &'static str {
    if std::str::from_utf8(name).is_err() {
        "non-utf8-name"
    } else if name.starts_with(b".") && name.iter().filter(|&&b| b == b'.').count() == 1 {
        "dot-file-or-name-is-extension"
    } else if name.iter().filter(|&&b| b == b'.').count() >= 2 {
        "multi-dot"
    } else if !name.contains(&b'.') {
        "no-dot"
    } else {
        "plain"
    }
}

pub fn tree_spec(max_entries: usize, utf8_only: bool) -> impl Strategy<Value = TreeSpec> {
    prop::collection::vec(
        (
            prop::collection::vec(0usize..DIR_NAMES.len(), 0..=3),
            0usize..FILE_NAMES.len(),
            0u8..16,
            any::<u8>(),
        ),
        1..=max_entries,
    )
    .prop_map(move |raw| {
        let mut entries: Vec<TEntry> = Vec::new();
        let mut taken: BTreeMap<Vec<Vec<u8>>, bool> = BTreeMap::new(); // path -> is_dir
        for (dirs, file, kind_b, aux) in raw {
            let mut path: Vec<Vec<u8>> = dirs.iter().map(|&d| DIR_NAMES[d].to_vec()).collect();
            let fname = FILE_NAMES[file].to_vec();
            if utf8_only && std::str::from_utf8(&fname).is_err() {
                continue;
            }
            // every proper prefix must be (or become) a directory
            let mut ok = true;
            for k in 1..=path.len() {
                match taken.get(&path[..k].to_vec()) {
                    Some(false) => ok = false,
                    _ => {}
                }
            }
            if !ok {
                continue;
            }
            let kind = match kind_b {
                0..=9 => TKind::File(aux),
                10 => TKind::Dir,
                11 if !entries.is_empty() => TKind::LinkTo(aux as usize % entries.len()),
                12 => TKind::LinkOutsideFile,
                13 => TKind::LinkOutsideDir,
                14 => TKind::Dangling,
                _ => TKind::File(aux),
            };
            if kind == TKind::Dir {
                // an (empty or later filled) directory named like a file class
                path.push(DIR_NAMES[aux as usize % DIR_NAMES.len()].to_vec());
            } else {
                path.push(fname);
            }
            if taken.contains_key(&path) {
                continue;
            }
            for k in 1..path.len() {
                taken.insert(path[..k].to_vec(), true);
            }
            taken.insert(path.clone(), kind == TKind::Dir);
            entries.push(TEntry { path, kind });
        }
        TreeSpec { entries }
    })
}

pub fn os_path(base: &Path, comps: &[Vec<u8>]) -> PathBuf {
    let mut p = base.to_path_buf();
    for c in comps {
        p.push(OsString::from_vec(c.clone()));
    }
    p
}

pub fn file_content(variant: u8, salt: &str) -> Vec<u8> {
    // sizes around the interesting boundaries: empty, small, > 1 KiB buffer, > 64 KiB
    let len = match variant % 8 {
        0 => 0,
        1..=4 => 10 + variant as usize,
        5 => 1024,
        6 => 1500 + variant as usize,
        _ => 70_000,
    };
    let mut v = Vec::with_capacity(len);
    let seed = format!("{}:{}:", salt, variant);
    while v.len() < len {
        v.extend_from_slice(seed.as_bytes());
    }
    v.truncate(len);
    v
}

impl TreeSpec {
    /// Creates the tree below `base`; `outside` holds the referents of outside links.
    pub fn materialise(&self, base: &Path, outside: &Path) {
        let _ = std::fs::create_dir_all(base);
        let _ = std::fs::create_dir_all(outside.join("odir"));
        let _ = std::fs::write(outside.join("ofile.rs"), b"outside file\n");
        let _ = std::fs::write(outside.join("odir/inner.rs"), b"outside inner\n");
        for (i, e) in self.entries.iter().enumerate() {
            let p = os_path(base, &e.path);
            if let Some(d) = p.parent() {
                let _ = std::fs::create_dir_all(d);
            }
            match &e.kind {
                TKind::File(v) => {
                    let _ = std::fs::write(&p, file_content(*v, &format!("e{}", i)));
                }
                TKind::Dir => {
                    let _ = std::fs::create_dir_all(&p);
                }
                TKind::LinkTo(j) => {
                    let target = os_path(base, &self.entries[*j].path);
                    let _ = std::os::unix::fs::symlink(target, &p);
                }
                TKind::LinkOutsideFile => {
                    let _ = std::os::unix::fs::symlink(outside.join("ofile.rs"), &p);
                }
                TKind::LinkOutsideDir => {
                    let _ = std::os::unix::fs::symlink(outside.join("odir"), &p);
                }
                TKind::Dangling => {
                    let _ = std::os::unix::fs::symlink("/nonexistent/zv-dangling", &p);
                }
            }
        }
    }

    pub fn feature_classes(&self) -> BTreeSet<&'static str> {
        let mut c = BTreeSet::new();
        for e in &self.entries {
            if e.path.len() >= 3 {
                c.insert("depth>=3");
            }
            if e.path[..e.path.len() - 1].iter().any(|d| d == b".zinoma") {
                c.insert("under-workdir");
            }
            let name = e.path.last().unwrap();
            match e.kind {
                TKind::File(_) => {
                    c.insert(class_of_name(name));
                }
                TKind::LinkTo(_) | TKind::LinkOutsideFile => {
                    c.insert("symlink");
                }
                TKind::LinkOutsideDir => {
                    c.insert("symlink-to-dir");
                }
                TKind::Dangling => {
                    c.insert("dangling-link");
                }
                TKind::Dir => {}
            }
        }
        c
    }
}

/// Normalisation stated by C15: leading dot added, empty entries ignored, empty list = no filter.
pub fn normalise_extensions(e: &Option<Vec<String>>) -> Option<BTreeSet<String>> {
    let e = e.as_ref()?;
    let s: BTreeSet<String> = e
        .iter()
        .filter(|x| !x.is_empty())
        .map(|x| {
            if x.starts_with('.') {
                x.clone()
            } else {
                format!(".{}", x)
            }
        })
        .collect();
    if s.is_empty() {
        None
    } else {
        Some(s)
    }
}

pub fn name_matches(name: &[u8], exts: &Option<BTreeSet<String>>) -> bool {
    match exts {
        None => true,
        Some(x) => x.iter().any(|e| name.ends_with(e.as_bytes())),
    }
}

#[derive(Debug, Default, Clone)]
pub struct RefListing {
    /// Regular files, and link entries whose referent is a regular file, that MUST be denoted.
    pub must: BTreeSet<PathBuf>,
    /// Link entries named `.zinoma` (referent a regular file) that MAY be denoted.
    pub may: BTreeSet<PathBuf>,
}

/// Reference walker: std read_dir recursion, symlink_metadata, never follows links, prunes
/// directories named `.zinoma`.
pub fn reference_listing(paths: &[PathBuf], exts: &Option<BTreeSet<String>>) -> RefListing {
    fn visit(p: &Path, exts: &Option<BTreeSet<String>>, out: &mut RefListing, top: bool) {
        let md = match std::fs::symlink_metadata(p) {
            Ok(m) => m,
            Err(_) => return,
        };
        let name = p.file_name().map(|n| n.as_bytes().to_vec()).unwrap_or_default();
        let ft = md.file_type();
        if ft.is_dir() {
            if name == b".zinoma" {
                return;
            }
            if let Ok(rd) = std::fs::read_dir(p) {
                for e in rd.flatten() {
                    visit(&e.path(), exts, out, false);
                }
            }
        } else if ft.is_file() {
            if name_matches(&name, exts) {
                out.must.insert(p.to_path_buf());
            }
        } else if ft.is_symlink() {
            // An entry that is a link to a regular file is listed like the file it names (the
            // lister asks `Path::is_file`, which resolves links; content and mtime are then
            // read through the link). Entries named `.zinoma` are pruned whatever their type.
            let _ = top;
            if let Ok(t) = std::fs::metadata(p) {
                if t.is_file() && name_matches(&name, exts) {
                    if name == b".zinoma" {
                        out.may.insert(p.to_path_buf());
                    } else {
                        out.must.insert(p.to_path_buf());
                    }
                }
            }
        }
    }
    let mut out = RefListing::default();
    for p in paths {
        visit(p, exts, &mut out, true);
    }
    out
}
