//! C12: `--clean` deletes exactly the declared outputs and state, nothing else (black-box).

use super::bb::*;
use super::prop::*;
use proptest::prelude::*;
use serde::{Deserialize, Serialize};
use serde_json::{json, Map, Value};
use std::collections::{BTreeMap, BTreeSet};
use std::path::{Path, PathBuf};
use std::time::Duration;

#[derive(Debug, Clone, Serialize, Deserialize)]
pub struct OutRes {
    /// Indices into PATH_MENU.
    pub paths: Vec<u8>,
    /// None = plain output; Some = extension filter (as written in the file).
    pub extensions: Option<Vec<String>>,
}

#[derive(Debug, Clone, Serialize, Deserialize)]
pub struct CTarget {
    pub proj: usize,
    pub deps: Vec<usize>,
    pub dep_is_output: Vec<bool>,
    pub has_input: bool,
    pub outputs: Vec<OutRes>,
    /// Which entries of ENTRY_MENU are planted in each of its directory paths.
    pub plant: u16,
}

#[derive(Debug, Clone, Serialize, Deserialize)]
pub struct C12Case {
    pub root_named: bool,
    pub nproj: usize,
    pub targets: Vec<CTarget>,
    /// Empty = bare `--clean`; else indices of requested targets.
    pub requested: Vec<usize>,
    pub prebuild: bool,
}

/// Output path shapes, relative to the project directory ({t} = target index).
const PATH_MENU: [&str; 10] = [
    "out_{t}",        // directory
    "out_{t}.txt",    // single file
    "missing_{t}",    // does not exist
    "gen/deep_{t}",   // nested directory
    "in_{t}",         // overlaps the target's input directory
    "gen/file_{t}.o", // nested single file
    ".cache_{t}",     // dot directory (an undeclared `cache_{t}` sits next to it)
    "./ds_{t}",       // written with a leading ./
    "../up_{t}",      // outside the project directory (an undeclared `up_{t}` sits inside it)
    ".hid_{t}.o",     // dot file (an undeclared `hid_{t}.o` sits next to it)
];
const DIR_PATHS: [usize; 6] = [0, 3, 4, 6, 7, 8];
const FILE_PATHS: [usize; 3] = [1, 5, 9];

/// What may be planted below a directory path.
const ENTRY_MENU: [&str; 12] = [
    "a.o",
    "b.txt",
    "c.o.bak",
    "sub/d.o",
    "sub/e.txt",
    ".zinoma/f.o",
    "sub/.zinoma/g.o",
    "L:link_file.o=>precious/file.txt",
    "L:link_dir=>precious/dir",
    "L:dangling.o=>nowhere",
    ".hidden.o",
    "o",
];

pub fn c12_case() -> impl Strategy<Value = C12Case> {
    let ext = prop_oneof![
        Just("o".to_string()),
        Just(".o".to_string()),
        Just("txt".to_string()),
        Just("".to_string()),
        Just(".o.bak".to_string()),
    ];
    let outres = (
        prop::collection::vec(0u8..PATH_MENU.len() as u8, 1..=2),
        prop::option::of(prop::collection::vec(ext, 0..=2)),
    )
        .prop_map(|(paths, extensions)| OutRes { paths, extensions });
    let target = (
        0usize..3,
        prop::collection::vec((any::<u8>(), any::<bool>()), 0..=2),
        any::<bool>(),
        prop::collection::vec(outres, 0..=2),
        any::<u16>(),
    );
    (
        any::<bool>(),
        1usize..=3,
        prop::collection::vec(target, 1..=5),
        prop::collection::vec(any::<u8>(), 0..=2),
        any::<bool>(),
    )
        .prop_map(|(root_named, nproj, raw, reqsel, prebuild)| {
            let mut targets: Vec<CTarget> = Vec::new();
            for (i, (proj, depsel, has_input, outputs, plant)) in raw.into_iter().enumerate() {
                let proj = proj % nproj;
                let mut deps = vec![];
                let mut dep_is_output = vec![];
                for (b, out) in depsel {
                    if i == 0 {
                        break;
                    }
                    let j = (b as usize * i) >> 8;
                    // cross-project references need a named destination
                    if targets[j].proj != proj && targets[j].proj == 0 && !root_named {
                        continue;
                    }
                    if !deps.contains(&j) {
                        deps.push(j);
                        dep_is_output.push(out);
                    }
                }
                targets.push(CTarget {
                    proj,
                    deps,
                    dep_is_output,
                    has_input,
                    outputs,
                    plant,
                });
            }
            let n = targets.len();
            let mut requested: Vec<usize> = reqsel.iter().map(|&b| (b as usize * n) >> 8).collect();
            requested.dedup();
            C12Case {
                root_named,
                nproj,
                targets,
                requested,
                prebuild,
            }
        })
}

impl C12Case {
    fn proj_name(&self, p: usize) -> Option<String> {
        if p == 0 {
            if self.root_named {
                Some("root".into())
            } else {
                None
            }
        } else {
            Some(format!("p{}", p))
        }
    }
    fn proj_rel(&self, p: usize) -> String {
        if p == 0 {
            "proj".into()
        } else {
            format!("proj/p{}", p)
        }
    }
    fn tname(&self, i: usize) -> String {
        format!("t{}", i)
    }
    fn id(&self, i: usize) -> String {
        match self.proj_name(self.targets[i].proj) {
            Some(p) => format!("{}::t{}", p, i),
            None => format!("t{}", i),
        }
    }
    fn reference(&self, from: usize, to: usize) -> String {
        if self.targets[from].proj == self.targets[to].proj {
            self.tname(to)
        } else {
            format!(
                "{}::{}",
                self.proj_name(self.targets[to].proj).unwrap(),
                self.tname(to)
            )
        }
    }
    fn closure(&self, roots: &[usize]) -> BTreeSet<usize> {
        let mut seen = BTreeSet::new();
        let mut stack = roots.to_vec();
        while let Some(i) = stack.pop() {
            if seen.insert(i) {
                stack.extend(self.targets[i].deps.iter().copied());
            }
        }
        seen
    }
    /// Location of a declared path, relative to the sandbox root (`./x` and `../x` resolved).
    fn path_rel(&self, i: usize, menu: u8) -> String {
        let raw = PATH_MENU[menu as usize].replace("{t}", &i.to_string());
        let proj = self.proj_rel(self.targets[i].proj);
        if let Some(r) = raw.strip_prefix("./") {
            format!("{}/{}", proj, r)
        } else if let Some(r) = raw.strip_prefix("../") {
            match proj.rsplit_once('/') {
                Some((parent, _)) => format!("{}/{}", parent, r),
                None => r.to_string(),
            }
        } else {
            format!("{}/{}", proj, raw)
        }
    }
}

fn norm_exts(e: &Option<Vec<String>>) -> Option<BTreeSet<String>> {
    let e = e.as_ref()?;
    let s: BTreeSet<String> = e
        .iter()
        .filter(|x| !x.is_empty())
        .map(|x| {
            if x.starts_with('.') {
                x.clone()
            } else {
                format!(".{}", x)
            }
        })
        .collect();
    if s.is_empty() {
        None
    } else {
        Some(s)
    }
}

fn plant_tree(sb: &Sandbox, case: &C12Case) {
    sb.write("precious/file.txt", b"precious file\n");
    sb.write("precious/dir/x.o", b"precious x.o\n");
    sb.write("precious/dir/y.txt", b"precious y\n");
    sb.write("outside.o", b"outside every project\n");
    for (i, t) in case.targets.iter().enumerate() {
        let proj = case.proj_rel(t.proj);
        // inputs
        sb.write(&format!("{}/in_{}/src.c", proj, i), b"int main(){}\n");
        sb.write(&format!("{}/in_{}/lib.o", proj, i), b"input object\n");
        // a neighbour that no target declares
        sb.write(&format!("{}/keep_{}.o", proj, i), b"undeclared\n");
        // look-alikes of the dotted / parent-relative declarations, never declared themselves
        sb.write(&format!("{}/cache_{}/keep.o", proj, i), b"undeclared look-alike\n");
        sb.write(&format!("{}/up_{}/keep.o", proj, i), b"undeclared look-alike\n");
        sb.write(&format!("{}/hid_{}.o", proj, i), b"undeclared look-alike\n");
        // dummy state of every target
        sb.write(
            &format!("{}/.zinoma/{}.checksums", proj, case.id(i)),
            format!("d{}", i).as_bytes(),
        );
        for (k, o) in t.outputs.iter().enumerate() {
            for &m in &o.paths {
                let rel = case.path_rel(i, m);
                let mi = m as usize;
                if FILE_PATHS.contains(&mi) {
                    sb.write(&rel, b"single file output\n");
                } else if DIR_PATHS.contains(&mi) {
                    let _ = std::fs::create_dir_all(sb.path(&rel));
                    for (e, entry) in ENTRY_MENU.iter().enumerate() {
                        if (t.plant.rotate_left(k as u32 * 3) >> e) & 1 == 0 {
                            continue;
                        }
                        if let Some(l) = entry.strip_prefix("L:") {
                            let (name, dest) = l.split_once("=>").unwrap();
                            let link = sb.path(&format!("{}/{}", rel, name));
                            if let Some(d) = link.parent() {
                                let _ = std::fs::create_dir_all(d);
                            }
                            let target = if dest == "nowhere" {
                                PathBuf::from("/nonexistent/zv-nowhere")
                            } else {
                                sb.path(dest)
                            };
                            let _ = std::os::unix::fs::symlink(target, link);
                        } else {
                            let p = format!("{}/{}", rel, entry);
                            if !sb.path(&p).exists() {
                                sb.write(&p, format!("content of {}\n", entry).as_bytes());
                            }
                        }
                    }
                }
            }
        }
    }
    for p in 0..case.nproj {
        sb.write(
            &format!("{}/.zinoma/unrelated.bin", case.proj_rel(p)),
            b"someone else's file in the work dir\n",
        );
    }
}

fn write_projects(sb: &Sandbox, case: &C12Case) {
    for p in 0..case.nproj {
        let mut targets = Map::new();
        for (i, t) in case.targets.iter().enumerate() {
            if t.proj != p {
                continue;
            }
            let mut deps = vec![];
            let mut input: Vec<Value> = vec![];
            for (k, &d) in t.deps.iter().enumerate() {
                if t.dep_is_output[k] {
                    input.push(json!(format!("{}.output", case.reference(i, d))));
                } else {
                    deps.push(case.reference(i, d));
                }
            }
            if t.has_input {
                input.push(json!({"paths": [format!("in_{}", i)]}));
            }
            let output: Vec<Value> = t
                .outputs
                .iter()
                .map(|o| {
                    let paths: Vec<String> = o
                        .paths
                        .iter()
                        .map(|&m| PATH_MENU[m as usize].replace("{t}", &i.to_string()))
                        .collect();
                    match &o.extensions {
                        None => json!({ "paths": paths }),
                        Some(e) => json!({"paths": paths, "extensions": e}),
                    }
                })
                .collect();
            targets.insert(
                case.tname(i),
                json!({
                    "dependencies": deps,
                    "build": build_script(&case.id(i), ""),
                    "input": input,
                    "output": output,
                }),
            );
        }
        let mut doc = Map::new();
        if let Some(name) = case.proj_name(p) {
            doc.insert("name".into(), json!(name));
        }
        if p == 0 && case.nproj > 1 {
            let mut imports = Map::new();
            for q in 1..case.nproj {
                imports.insert(format!("p{}", q), json!(format!("p{}", q)));
            }
            doc.insert("imports".into(), Value::Object(imports));
        }
        doc.insert("targets".into(), Value::Object(targets));
        write_project(&sb.path(&case.proj_rel(p)), &Value::Object(doc));
    }
}

/// Expected-deleted set (relative paths): entries that MUST be gone, and entries that MAY be
/// gone (symlink entries to files whose own name matches a filter: the statement says "regular
/// files"; following the link for the type test is tolerated, the referent must survive).
fn expected_deleted(
    case: &C12Case,
    scope: &BTreeSet<usize>,
    before: &BTreeMap<PathBuf, Entry>,
) -> (BTreeSet<PathBuf>, BTreeSet<PathBuf>) {
    let mut must = BTreeSet::new();
    let mut may = BTreeSet::new();
    for &i in scope {
        for o in &case.targets[i].outputs {
            let exts = norm_exts(&o.extensions);
            for &m in &o.paths {
                let rel = PathBuf::from(case.path_rel(i, m));
                // `extensions: []` (or only empty entries) means "no filter", i.e. the same as no
                // extensions at all: the declaration is a plain path
                match (&exts, exts.is_some()) {
                    (None, false) => {
                        // plain output: the path and everything below it
                        for (p, _) in before.iter() {
                            if p == &rel || p.starts_with(&rel) {
                                must.insert(p.clone());
                            }
                        }
                    }
                    (exts, true) => {
                        // filtered (an empty / all-empty list means "no filter": every regular
                        // file below the path, but still files only)
                        for (p, e) in before.iter() {
                            if !(p == &rel || p.starts_with(&rel)) {
                                continue;
                            }
                            let below = p.strip_prefix(&rel).unwrap();
                            if below.components().any(|c| c.as_os_str() == ".zinoma") {
                                continue;
                            }
                            // not below a symlinked directory
                            let mut anc = p.parent();
                            let mut under_link = false;
                            while let Some(a) = anc {
                                if a == rel.as_path() || !a.starts_with(&rel) {
                                    break;
                                }
                                if matches!(before.get(a), Some(Entry::Link(_))) {
                                    under_link = true;
                                }
                                anc = a.parent();
                            }
                            if under_link {
                                continue;
                            }
                            let name = p.file_name().unwrap().to_string_lossy().to_string();
                            let matches = exts
                                .as_ref()
                                .is_none_or(|x| x.iter().any(|e| name.ends_with(e.as_str())));
                            if !matches {
                                continue;
                            }
                            match e {
                                Entry::File(_) => {
                                    must.insert(p.clone());
                                }
                                Entry::Link(_) => {
                                    may.insert(p.clone());
                                }
                                _ => {}
                            }
                        }
                    }
                    (_, false) => unreachable!(),
                }
            }
        }
    }
    (must, may)
}

pub fn eval_c12(case: &C12Case) -> CaseResult {
    let sb = Sandbox::new("c12");
    plant_tree(&sb, case);
    write_projects(&sb, case);
    let dir = sb.path("proj");
    let bare = case.requested.is_empty();
    let all: BTreeSet<usize> = (0..case.targets.len()).collect();
    let scope = if bare {
        all.clone()
    } else {
        case.closure(&case.requested)
    };
    let names: Vec<String> = case
        .requested
        .iter()
        .map(|&i| {
            if case.targets[i].proj == 0 {
                case.tname(i)
            } else {
                case.id(i)
            }
        })
        .collect();
    let mut res = CaseResult::default();
    let mut classes = vec![
        if bare { "bare-clean".to_string() } else { "clean-targets".to_string() },
        format!("projects-{}", case.nproj),
    ];
    // optional pre-build so that a recorded state exists for real
    if !bare && case.prebuild {
        let out = run_zinoma(&sb, &dir, &names, &[], Duration::from_secs(60), false);
        if !out.success() {
            res.inconclusive = Some(format!("pre-build failed: {:?}", out.status));
            return res;
        }
        sb.clear_trace();
        classes.push("prebuilt".into());
    }
    let before = snapshot(&sb.root);
    let mut args = vec!["--clean".to_string()];
    args.extend(names.iter().cloned());
    let out = run_zinoma(&sb, &dir, &args, &[], Duration::from_secs(60), false);
    let after = snapshot(&sb.root);
    let trace = sb.trace();
    let (must, may) = expected_deleted(case, &scope, &before);

    // survivor classes adjacent to deleted entries (non-triviality)
    let mut feats = BTreeSet::new();
    for &i in &scope {
        for o in &case.targets[i].outputs {
            for &m in &o.paths {
                let rel = PathBuf::from(case.path_rel(i, m));
                let below: Vec<&PathBuf> =
                    before.keys().filter(|p| p.starts_with(&rel) && *p != &rel).collect();
                if norm_exts(&o.extensions).is_some() {
                    if below.iter().any(|p| !must.contains(*p) && matches!(before[*p], Entry::File(_))) && below.iter().any(|p| must.contains(*p)) {
                        feats.insert("non-matching-survivor");
                    }
                    if below.iter().any(|p| p.components().any(|c| c.as_os_str() == ".zinoma")) {
                        feats.insert("workdir-inside-output");
                    }
                }
                if below.iter().any(|p| matches!(before[*p], Entry::Link(_))) {
                    feats.insert("symlink-in-output");
                }
                if m == 4 {
                    feats.insert("output-overlaps-input");
                }
                if matches!(m, 6 | 9) {
                    feats.insert("dotted-output-with-look-alike");
                }
                if m == 8 {
                    feats.insert("output-outside-project-dir");
                }
            }
        }
    }
    if !bare && scope.len() < case.targets.len() {
        feats.insert("other-targets-untouched");
    }
    res.nontrivial = !feats.is_empty() && !must.is_empty();
    res.fingerprint = format!("{:?}|{:?}", classes, feats);
    for f in &feats {
        classes.push(f.to_string());
    }
    res.classes = classes;
    res.sample = json!({
        "args": args,
        "targets": case.targets.iter().enumerate().map(|(i,t)| json!({
            "id": case.id(i), "deps": t.deps.iter().map(|&d| case.id(d)).collect::<Vec<_>>(),
            "outputs": t.outputs.iter().map(|o| json!({"paths": o.paths.iter().map(|&m| PATH_MENU[m as usize].replace("{t}", &i.to_string())).collect::<Vec<_>>(), "extensions": o.extensions})).collect::<Vec<_>>(),
        })).collect::<Vec<_>>(),
        "must_delete": must.len(),
    });
    let replay = |msg: &str| {
        json!({"engine": "BB-c12", "case": serde_json::to_value(case).unwrap(), "message": msg,
            "args": args, "exit": out.code(), "stderr_tail": out.stderr.lines().rev().take(8).collect::<Vec<_>>()})
    };
    let fail = |mut res: CaseResult, sig: &str, msg: String| {
        res.signature = Some(format!("bb-c12:{}", sig));
        res.replay = replay(&msg);
        res.violation = Some(msg);
        res
    };
    if out.timed_out {
        res.inconclusive = Some("still busy at wall budget".into());
        return res;
    }
    if !out.success() {
        return fail(
            res,
            "exit",
            format!(
                "`zinoma {}` exited with {:?}: {}",
                args.join(" "),
                out.status,
                out.stderr.lines().last().unwrap_or("")
            ),
        );
    }
    // state files / work dirs that are allowed to differ
    let state_rel = |i: usize| -> PathBuf {
        PathBuf::from(format!(
            "{}/.zinoma/{}.checksums",
            case.proj_rel(case.targets[i].proj),
            case.id(i)
        ))
    };
    let mut state_must_go: BTreeSet<PathBuf> = BTreeSet::new();
    let mut ignore: BTreeSet<PathBuf> = BTreeSet::new();
    if bare {
        for p in 0..case.nproj {
            let wd = PathBuf::from(format!("{}/.zinoma", case.proj_rel(p)));
            for k in before.keys() {
                if k == &wd || k.starts_with(&wd) {
                    state_must_go.insert(k.clone());
                }
            }
        }
    } else {
        for &i in &scope {
            // deleted, then possibly re-created by the run that follows
            ignore.insert(state_rel(i));
            ignore.insert(PathBuf::from(format!(
                "{}/.zinoma",
                case.proj_rel(case.targets[i].proj)
            )));
        }
    }
    // (1) everything expected to go is gone
    for p in must.iter().chain(state_must_go.iter()) {
        if after.contains_key(p) && !ignore.contains(p) {
            // an output below a work dir that bare --clean removes anyway is fine either way
            return fail(
                res,
                "not-deleted",
                format!("`zinoma {}` left {} in place", args.join(" "), p.display()),
            );
        }
    }
    // (2) nothing else changed
    for (p, e) in before.iter() {
        if must.contains(p) || state_must_go.contains(p) || ignore.contains(p) {
            continue;
        }
        if may.contains(p) && !after.contains_key(p) {
            continue;
        }
        match after.get(p) {
            None => {
                return fail(
                    res,
                    "over-deleted",
                    format!(
                        "`zinoma {}` deleted {} which no cleaned target declares as output",
                        args.join(" "),
                        p.display()
                    ),
                )
            }
            Some(a) if a != e => {
                return fail(
                    res,
                    "modified",
                    format!("`zinoma {}` modified {}", args.join(" "), p.display()),
                )
            }
            _ => {}
        }
    }
    for p in after.keys() {
        if !before.contains_key(p) && !ignore.contains(p) && !p.starts_with(".zv") {
            let name = p.file_name().unwrap().to_string_lossy().to_string();
            if name == "trace.log" || name.starts_with(".zv-") {
                continue;
            }
            return fail(
                res,
                "created",
                format!("`zinoma {}` created {}", args.join(" "), p.display()),
            );
        }
    }
    // (3) --clean T...: every closure target ran (never skipped), nothing else ran
    if !bare {
        for i in 0..case.targets.len() {
            let s = started(&trace, &case.id(i));
            if scope.contains(&i) && s != 1 {
                return fail(
                    res,
                    "not-rerun",
                    format!(
                        "`zinoma {}`: {} ran {} time(s) instead of once (cleaned targets are never skipped)",
                        args.join(" "),
                        case.id(i),
                        s
                    ),
                );
            }
            if !scope.contains(&i) && s != 0 {
                return fail(
                    res,
                    "ran-outside",
                    format!("`zinoma {}`: {} ran although it is outside the closure", args.join(" "), case.id(i)),
                );
            }
        }
    } else if !trace.is_empty() {
        return fail(
            res,
            "bare-clean-ran",
            format!("bare `--clean` executed scripts: {:?}", trace.iter().map(|t| t.id.clone()).collect::<Vec<_>>()),
        );
    }
    res
}

pub fn replay_c12(v: &Value) -> Result<CaseResult, String> {
    let c: C12Case =
        serde_json::from_value(v["case"].clone()).map_err(|e| format!("bad C12 case: {}", e))?;
    Ok(eval_c12(&c))
}
