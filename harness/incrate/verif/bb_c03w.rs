//! C03 / C02 (black-box, wide): many targets of the same project(s) complete - and record their
//! state - at the same moment; afterwards every one of them must be skipped on an untouched tree,
//! and exactly the edited ones must run after an edit.

use super::bb::*;
use super::prop::*;
use proptest::prelude::*;
use serde::{Deserialize, Serialize};
use serde_json::{json, Map, Value};
use std::collections::BTreeSet;
use std::time::Duration;

#[derive(Debug, Clone, Serialize, Deserialize)]
pub struct WideCase {
    /// per target: bit 0 = also a cmd_stdout input, bit 1 = declares an output file,
    /// bit 2 = lives in the imported project `sub`, bit 3 = the script appends to its own
    /// declared input (a lock file refreshed in place, a formatter), bit 4 = the input file
    /// carries a modification time in the future
    pub targets: Vec<u8>,
    /// every script waits (bounded) until all scripts have started, so that they all finish and
    /// store their state together
    pub rendezvous: bool,
    /// untouched re-invocations before the edit (1..=2)
    pub repeats: u8,
    /// which targets get their input rewritten before the last-but-one invocation (bit mask)
    pub edit_mask: u16,
    /// 0 = default runtime, otherwise ASYNC_STD_THREAD_COUNT
    pub runtime_threads: u8,
}

pub fn wide_case() -> impl Strategy<Value = WideCase> {
    (
        prop::collection::vec(0u8..32, 2..=16),
        prop::bool::weighted(0.8),
        1u8..=2,
        any::<u16>(),
        prop::sample::select(vec![0u8, 0, 1, 2, 4]),
        any::<bool>(),
    )
        .prop_map(|(targets, rendezvous, repeats, edit_mask, runtime_threads, one_project)| WideCase {
            // half of the cases keep every target in the root project (one shared .zinoma)
            targets: targets.into_iter().map(|k| if one_project { k & !4 } else { k }).collect(),
            rendezvous,
            repeats,
            edit_mask,
            runtime_threads,
        })
}

fn tname(i: usize) -> String {
    format!("w{}", i)
}

fn tid(case: &WideCase, i: usize) -> String {
    if case.targets[i] & 4 != 0 {
        format!("sub::w{}", i)
    } else {
        format!("w{}", i)
    }
}

/// `which`: "c03" flags scripts that ran although nothing changed, "c02" flags skips of edited
/// targets; both flag a failing invocation.
pub fn eval_wide(case: &WideCase, which: &str) -> CaseResult {
    let sb = Sandbox::new("c03w");
    let n = case.targets.len();
    let any_sub = case.targets.iter().any(|k| k & 4 != 0);
    let mut root_targets = Map::new();
    let mut sub_targets = Map::new();
    for (i, k) in case.targets.iter().enumerate() {
        let dir = if k & 4 != 0 { "proj/sub" } else { "proj" };
        sb.write(&format!("{}/in/w{}.txt", dir, i), format!("input {} v0\n", i).as_bytes());
        sb.write(&format!("{}/ver/w{}.txt", dir, i), format!("cmd {} v0\n", i).as_bytes());
        let mut input = vec![json!({"paths": [format!("in/w{}.txt", i)]})];
        if k & 1 != 0 {
            input.push(json!({"cmd_stdout": format!("cat ver/w{}.txt", i)}));
        }
        let wait = if case.rendezvous {
            format!(
                "mkdir -p \"$ZV_ROOT/rv\"; : > \"$ZV_ROOT/rv/{i}\"; k=0; while [ \"$(ls \"$ZV_ROOT/rv\" | wc -l)\" -lt \"$(cat \"$ZV_ROOT/expected\")\" ] && [ $k -lt 150 ]; do sleep 0.02; k=$((k+1)); done",
                i = i
            )
        } else {
            String::new()
        };
        let self_modifying = if k & 8 != 0 { format!("\necho \"built by w{i}\" >> in/w{i}.txt", i = i) } else { String::new() };
        let body = format!("{}\nmkdir -p out && cat in/w{i}.txt > out/w{i}.txt{}", wait, self_modifying, i = i);
        if k & 16 != 0 {
            set_mtime(&sb.path(&format!("{}/in/w{}.txt", dir, i)), 2_200_000_000, 0);
        }
        let mut doc = json!({"build": build_script(&tid(case, i), &body), "input": input});
        if k & 2 != 0 {
            doc["output"] = json!([{"paths": [format!("out/w{}.txt", i)]}]);
        }
        if k & 4 != 0 {
            sub_targets.insert(tname(i), doc);
        } else {
            root_targets.insert(tname(i), doc);
        }
    }
    let mut root = Map::new();
    if any_sub {
        root.insert("imports".into(), json!({"sub": "sub"}));
        write_project(&sb.path("proj/sub"), &json!({"name": "sub", "targets": sub_targets}));
    }
    root.insert("targets".into(), Value::Object(root_targets));
    write_project(&sb.path("proj"), &Value::Object(root));
    let args: Vec<String> = (0..n).map(|i| tid(case, i)).collect();
    let env: Vec<(String, String)> = if case.runtime_threads > 0 {
        vec![("ASYNC_STD_THREAD_COUNT".into(), case.runtime_threads.to_string())]
    } else {
        vec![]
    };
    let edited: BTreeSet<usize> = (0..n).filter(|i| case.edit_mask >> i & 1 == 1).collect();
    let mut res = CaseResult {
        nontrivial: n >= 4 && case.rendezvous,
        fingerprint: format!("{}|{}|{}|{}|{}", n, case.rendezvous, any_sub, edited.len().min(3), case.runtime_threads),
        classes: vec![
            format!("targets-{}", if n >= 9 { "9-16" } else if n >= 4 { "4-8" } else { "2-3" }),
            if case.rendezvous { "finish-together".into() } else { "free-running".into() },
            format!("runtime-threads-{}", case.runtime_threads),
            if any_sub { "two-projects".into() } else { "one-project".into() },
            if case.targets.iter().any(|k| k & 8 != 0) { "script-writes-own-input".into() } else { "inputs-left-alone".into() },
            if case.targets.iter().any(|k| k & 16 != 0) { "future-dated-input".into() } else { "past-dated-inputs".into() },
        ],
        sample: json!({"targets": n, "kinds": case.targets, "finish_together": case.rendezvous, "edited": edited, "runtime_threads": case.runtime_threads}),
        ..Default::default()
    };
    let mut history: Vec<String> = vec![];
    let fail = |mut res: CaseResult, sig: &str, msg: String, history: &Vec<String>| {
        res.signature = Some(format!("bb-{}w:{}", which, sig));
        res.replay = json!({"engine": "BB-wide", "which": which, "case": serde_json::to_value(case).unwrap(), "message": msg, "history": history});
        res.violation = Some(msg);
        res
    };
    // expected = which scripts must start (rendezvous size), returns the started set
    let mut invoke = |expected: &BTreeSet<usize>, label: &str, history: &mut Vec<String>| -> Result<(BTreeSet<usize>, ZOutcome), String> {
        sb.clear_trace();
        let _ = std::fs::remove_dir_all(sb.path("rv"));
        sb.write("expected", format!("{}", expected.len()).as_bytes());
        let out = run_zinoma(&sb, &sb.path("proj"), &args, &env, Duration::from_secs(60), true);
        if out.timed_out && !out.hung {
            return Err("still busy".into());
        }
        let trace = sb.trace();
        let ran: BTreeSet<usize> = (0..n).filter(|&i| started(&trace, &tid(case, i)) > 0).collect();
        history.push(format!("{}: exit {:?}, ran {:?}", label, out.code(), ran.iter().map(|&i| tid(case, i)).collect::<Vec<_>>()));
        Ok((ran, out))
    };
    let all: BTreeSet<usize> = (0..n).collect();
    let none: BTreeSet<usize> = BTreeSet::new();
    macro_rules! step {
        ($expected:expr, $label:expr) => {
            match invoke($expected, $label, &mut history) {
                Ok(x) => x,
                Err(e) => {
                    res.inconclusive = Some(e);
                    return res;
                }
            }
        };
    }
    let (ran, out) = step!(&all, "first invocation (fresh tree)");
    if out.hung {
        res.inconclusive = Some("first invocation idle and unfinished (C04's business)".into());
        return res;
    }
    if !out.success() || ran != all {
        let msg = format!("first invocation on a fresh tree: exit {:?}, ran {} of {} scripts; stderr: {}", out.code(), ran.len(), n, out.stderr.lines().last().unwrap_or(""));
        return fail(res, "first-run", msg, &history);
    }
    let check_untouched = |ran: &BTreeSet<usize>, out: &ZOutcome, label: &str, res: CaseResult, history: &Vec<String>| -> Result<CaseResult, CaseResult> {
        if !out.success() {
            let msg = format!("{}: zinoma failed on an untouched tree: {}", label, out.stderr.lines().last().unwrap_or(""));
            return Err(fail(res, "error", msg, history));
        }
        if which == "c03" {
            if let Some(&i) = ran.iter().next() {
                let msg = format!(
                    "{}: {} of {} targets that all completed and stored their state ran again on an untouched tree (first: {}; they {} and recorded their state {})",
                    label,
                    ran.len(),
                    n,
                    tid(case, i),
                    if case.rendezvous { "finished together" } else { "ran freely" },
                    if case.runtime_threads > 0 { format!("with {} runtime thread(s)", case.runtime_threads) } else { "on the default runtime".into() }
                );
                return Err(fail(res, "not-skipped", msg, history));
            }
        }
        Ok(res)
    };
    for r in 0..case.repeats {
        let label = format!("re-invocation {} (nothing touched)", r + 1);
        let (ran, out) = step!(&none, &label);
        res = match check_untouched(&ran, &out, &label, res, &history) {
            Ok(r) => r,
            Err(r) => return r,
        };
    }
    // edit the chosen inputs (content and modification time)
    for &i in &edited {
        let dir = if case.targets[i] & 4 != 0 { "proj/sub" } else { "proj" };
        let p = sb.path(&format!("{}/in/w{}.txt", dir, i));
        let _ = std::fs::write(&p, format!("input {} v1 (edited)\n", i));
        set_mtime(&p, 1_900_000_000 + i as i64, 0);
    }
    history.push(format!("edit inputs of {:?}", edited.iter().map(|&i| tid(case, i)).collect::<Vec<_>>()));
    let (ran, out) = step!(&edited, "invocation after the edit");
    if !out.success() {
        let msg = format!("invocation after the edit failed: {}", out.stderr.lines().last().unwrap_or(""));
        return fail(res, "error", msg, &history);
    }
    if which == "c02" {
        if let Some(&i) = edited.iter().find(|i| !ran.contains(i)) {
            let msg = format!("{} was skipped although its declared input file was rewritten (content and modification time)", tid(case, i));
            return fail(res, "wrong-skip", msg, &history);
        }
    } else if let Some(&i) = ran.iter().find(|i| !edited.contains(i)) {
        let msg = format!("{} ran again although only the inputs of {:?} were edited", tid(case, i), edited.iter().map(|&i| tid(case, i)).collect::<Vec<_>>());
        return fail(res, "not-skipped", msg, &history);
    }
    let (ran, out) = step!(&none, "final invocation (nothing touched since)");
    res = match check_untouched(&ran, &out, "final invocation (nothing touched since the edit was built)", res, &history) {
        Ok(r) => r,
        Err(r) => return r,
    };
    res
}

pub fn replay_wide(v: &Value) -> Result<CaseResult, String> {
    let c: WideCase = serde_json::from_value(v["case"].clone()).map_err(|e| format!("bad wide case: {}", e))?;
    Ok(eval_wide(&c, v["which"].as_str().unwrap_or("c03")))
}

// ---------------------------------------------------------------------------
// C17 (wide antichain): many mutually independent builds and services must all be in progress
// at the same time, whatever their number.

#[derive(Debug, Clone, Serialize, Deserialize)]
pub struct AntichainCase {
    /// number of independent build targets (9..=40)
    pub builds: usize,
    /// number of independent services requested next to them (0..=4)
    pub services: usize,
    pub runtime_threads: u8,
}

pub fn antichain_case(max: usize) -> impl Strategy<Value = AntichainCase> {
    (9usize..=max, 0usize..=4, prop::sample::select(vec![0u8, 0, 1, 2, 4])).prop_map(|(builds, services, runtime_threads)| AntichainCase {
        builds,
        services,
        runtime_threads,
    })
}

pub fn eval_antichain(case: &AntichainCase) -> CaseResult {
    set_runtime_threads(case.runtime_threads);
    let sb = Sandbox::new("c17w");
    let total = case.builds + case.services;
    let mut targets = Map::new();
    let mut args = vec![];
    // every script registers itself, then waits (bounded) until all the others are there too
    let meet = |i: usize| {
        format!(
            "mkdir -p \"$ZV_ROOT/rv\"; : > \"$ZV_ROOT/rv/{i}\"; k=0; while [ \"$(ls \"$ZV_ROOT/rv\" | wc -l)\" -lt {total} ] && [ $k -lt 400 ]; do sleep 0.02; k=$((k+1)); done; if [ \"$(ls \"$ZV_ROOT/rv\" | wc -l)\" -lt {total} ]; then echo \"{i} $(ls \"$ZV_ROOT/rv\" | wc -l)\" >> \"$ZV_ROOT/alone\"; fi",
            i = i,
            total = total
        )
    };
    for i in 0..case.builds {
        let name = format!("b{}", i);
        targets.insert(name.clone(), json!({"build": build_script(&name, &meet(i))}));
        args.push(name);
    }
    for j in 0..case.services {
        let name = format!("s{}", j);
        targets.insert(
            name.clone(),
            json!({"service": format!("echo \"V {} $$\" >> \"$ZV_TRACE\"\n{}\nexec sleep 100000", name, meet(case.builds + j))}),
        );
        args.push(name);
    }
    write_project(&sb.path("proj"), &json!({"targets": targets}));
    let mut z = spawn_zinoma(&sb, &sb.path("proj"), &args, &[]);
    // builds end by themselves; with services zinoma stays: wait for all build finish lines
    let deadline = std::time::Instant::now() + Duration::from_secs(40);
    let mut exited = None;
    loop {
        if let Some(s) = z.try_exit() {
            exited = Some(s);
            break;
        }
        let t = sb.trace();
        let done = (0..case.builds).filter(|i| finished(&t, &format!("b{}", i)) > 0).count();
        if done == case.builds && case.services > 0 {
            break;
        }
        if std::time::Instant::now() > deadline {
            break;
        }
        std::thread::sleep(Duration::from_millis(20));
    }
    if exited.is_none() {
        z.signal(libc::SIGTERM);
    }
    let out = z.wait(Duration::from_secs(15), false);
    let alone = std::fs::read_to_string(sb.path("alone")).unwrap_or_default();
    let t = sb.trace();
    let done = (0..case.builds).filter(|i| finished(&t, &format!("b{}", i)) > 0).count();
    let mut res = CaseResult {
        nontrivial: true,
        fingerprint: format!("{}|{}|{}", case.builds / 4, case.services, case.runtime_threads),
        classes: vec![
            format!("independent-builds-{}", if case.builds > 24 { "25+" } else if case.builds > 16 { "17-24" } else { "9-16" }),
            format!("services-{}", case.services),
            format!("runtime-threads-{}", case.runtime_threads),
        ],
        sample: json!({"independent_builds": case.builds, "services": case.services, "runtime_threads": case.runtime_threads, "all_overlapped": alone.is_empty()}),
        ..Default::default()
    };
    if done < case.builds {
        res.inconclusive = Some("not every build finished within the budget".into());
    }
    if !alone.is_empty() {
        let first = alone.lines().next().unwrap_or("");
        let msg = format!(
            "{} independent builds and {} services were requested together, but they were never all in progress at the same time: script #{} waited 8 s and saw only {} of {} started (a target with nothing to wait for was held back)",
            case.builds,
            case.services,
            first.split(' ').next().unwrap_or("?"),
            first.split(' ').nth(1).unwrap_or("?"),
            total
        );
        res.inconclusive = None;
        res.signature = Some("bb-c17w:not-all-concurrent".into());
        res.replay = json!({"engine": "BB-c17wide", "case": serde_json::to_value(case).unwrap(), "message": msg, "alone": alone, "stderr_tail": out.stderr.lines().rev().take(5).collect::<Vec<_>>()});
        res.violation = Some(msg);
    }
    res
}

pub fn replay_antichain(v: &Value) -> Result<CaseResult, String> {
    let c: AntichainCase = serde_json::from_value(v["case"].clone()).map_err(|e| format!("bad case: {}", e))?;
    Ok(eval_antichain(&c))
}
