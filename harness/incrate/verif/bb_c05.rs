//! C05: failed, interrupted or crashed builds are never remembered as done; a damaged state
//! file is discarded. Fault enumeration against the real binary.

use super::bb::*;
use super::prop::*;
use proptest::prelude::*;
use serde::{Deserialize, Serialize};
use serde_json::{json, Value};
use std::collections::BTreeSet;
use std::path::{Path, PathBuf};
use std::time::{Duration, Instant};

#[derive(Debug, Clone, Serialize, Deserialize, PartialEq)]
pub enum Fault {
    /// Script exits with this status.
    Exit(u8),
    /// The script's last statement fails without `set -e` aborting it: 0 = a failing and-list
    /// (`test -e /nonexistent && ...`), 1 = a negated command (`! true`). The shell's status is 1.
    TailFails(u8),
    /// Script is killed by a signal.
    SelfKill,
    /// zinoma aborts at a named point of the build cycle.
    Crash(String),
    /// zinoma is killed (SIGKILL) while the script runs.
    KillParent,
    /// The record is written up to byte k (x/65536 of its length), then zinoma dies.
    PartialWrite(u16),
    /// Termination signal: 0 = just after exec, 1 = while the script runs, 2 = right after it.
    Signal(bool, u8, u8),
    /// State-file corruption (then a plain invocation). `input_changed` decides what is required.
    Corrupt { op: CorruptOp, input_changed: bool },
}

#[derive(Debug, Clone, Serialize, Deserialize, PartialEq)]
pub enum CorruptOp {
    Truncate(u16),
    BitFlip(u16, u8),
    Overwrite(u16, Vec<u8>),
    Foreign(u8),
    /// 8-byte little-endian length field at offset x replaced by a huge / odd value.
    LengthPatch(u16, u8),
    Append(Vec<u8>),
}

#[derive(Debug, Clone, Serialize, Deserialize)]
pub struct C05Case {
    pub two_targets: bool,
    pub fault: Fault,
    /// After the faulty invocation the input is put back to what the old record describes.
    #[serde(default)]
    pub revert: bool,
}

pub fn fault_strategy() -> impl Strategy<Value = Fault> {
    let corrupt = prop_oneof![
        any::<u16>().prop_map(CorruptOp::Truncate),
        (any::<u16>(), 0u8..8).prop_map(|(o, b)| CorruptOp::BitFlip(o, b)),
        (any::<u16>(), prop::collection::vec(any::<u8>(), 1..12)).prop_map(|(o, v)| CorruptOp::Overwrite(o, v)),
        (0u8..8).prop_map(CorruptOp::Foreign),
        (any::<u16>(), 0u8..6).prop_map(|(o, k)| CorruptOp::LengthPatch(o, k)),
        prop::collection::vec(any::<u8>(), 1..10).prop_map(CorruptOp::Append),
    ];
    prop_oneof![
        2 => prop::sample::select(vec![1u8, 2, 126, 127, 130, 137, 255]).prop_map(Fault::Exit),
        1 => Just(Fault::SelfKill),
        1 => (0u8..2).prop_map(Fault::TailFails),
        3 => prop::sample::select(vec!["decided", "deleted", "script_done", "state_computed"]).prop_map(|s| Fault::Crash(s.to_string())),
        1 => Just(Fault::KillParent),
        4 => any::<u16>().prop_map(Fault::PartialWrite),
        3 => (any::<bool>(), 0u8..3, 0u8..20).prop_map(|(int, when, d)| Fault::Signal(int, when, d)),
        8 => (corrupt, any::<bool>()).prop_map(|(op, input_changed)| Fault::Corrupt { op, input_changed }),
    ]
}

pub fn c05_case() -> impl Strategy<Value = C05Case> {
    (any::<bool>(), fault_strategy(), any::<bool>()).prop_map(|(two_targets, fault, revert)| C05Case {
        two_targets,
        fault,
        revert,
    })
}

fn script(id: &str, copy: &str) -> String {
    format!(
        "echo \"S {id} $$\" >> \"$ZV_TRACE\"\n\
mode=$(cat \"$ZV_ROOT/mode.{id}\" 2>/dev/null || echo ok)\n\
case \"$mode\" in\n\
  exit:*) exit ${{mode#exit:}};;\n\
  selfkill) kill -9 $$;;\n\
  killparent) kill -9 $PPID; sleep 1;;\n\
  hang) touch \"$ZV_ROOT/started\"; exec sleep 100000;;\n\
esac\n\
{copy}\n\
if [ \"$mode\" = tail:0 ]; then test -e /nonexistent/zv-never && echo never; elif [ \"$mode\" = tail:1 ]; then ! true; else echo \"F {id} $$\" >> \"$ZV_TRACE\"; fi",
        id = id,
        copy = copy
    )
}

fn setup(sb: &Sandbox, two: bool) -> PathBuf {
    sb.write("proj/src/a.txt", b"input version 1\n");
    sb.write("proj/src/b.txt", b"second input\n");
    sb.write("proj/v.txt", b"v1\n");
    let mut targets = serde_json::Map::new();
    targets.insert(
        "t".into(),
        json!({
            "build": script("t", "mkdir -p out && cp src/a.txt out/a.txt"),
            "input": [{"paths": ["src"]}, {"cmd_stdout": "cat v.txt"}],
            "output": [{"paths": ["out"]}],
        }),
    );
    if two {
        sb.write("proj/usrc/u.txt", b"u input\n");
        targets.insert(
            "u".into(),
            json!({
                "build": script("u", "mkdir -p uout && cat out/a.txt usrc/u.txt > uout/u.txt"),
                "input": ["t.output", {"paths": ["usrc"]}],
                "output": [{"paths": ["uout"]}],
            }),
        );
    }
    write_project(&sb.path("proj"), &json!({ "targets": targets }));
    sb.path("proj")
}

/// Independent decoder of the record layout (bincode 1.x legacy: little-endian fixed ints, u64
/// lengths, UTF-8 strings, Option tag byte, Duration = u64 secs + u32 nanos). Written from the
/// documented layout and the shape of the record: {input, Option<output>} where each side is
/// {map path -> (duration, u64), map (path, command) -> text}. Trailing bytes are tolerated.
pub fn independent_decode(b: &[u8]) -> Result<(), String> {
    struct R<'a>(&'a [u8], usize);
    impl<'a> R<'a> {
        fn take(&mut self, n: usize) -> Result<&'a [u8], String> {
            if self.0.len() - self.1 < n {
                return Err("unexpected end".into());
            }
            let s = &self.0[self.1..self.1 + n];
            self.1 += n;
            Ok(s)
        }
        fn u64(&mut self) -> Result<u64, String> {
            Ok(u64::from_le_bytes(self.take(8)?.try_into().unwrap()))
        }
        fn u32(&mut self) -> Result<u32, String> {
            Ok(u32::from_le_bytes(self.take(4)?.try_into().unwrap()))
        }
        fn string(&mut self) -> Result<(), String> {
            let n = self.u64()?;
            if n > (self.0.len() - self.1) as u64 {
                return Err("length beyond input".into());
            }
            std::str::from_utf8(self.take(n as usize)?).map_err(|_| "not UTF-8".to_string())?;
            Ok(())
        }
        fn side(&mut self) -> Result<(), String> {
            let n = self.u64()?;
            for _ in 0..n {
                self.string()?;
                let secs = self.u64()?;
                let nanos = self.u32()?;
                // serde rejects durations whose nanoseconds carry over the seconds' range
                if secs.checked_add((nanos / 1_000_000_000) as u64).is_none() {
                    return Err("duration overflow".into());
                }
                self.u64()?;
            }
            let n = self.u64()?;
            for _ in 0..n {
                self.string()?;
                self.string()?;
                self.string()?;
            }
            Ok(())
        }
    }
    let mut r = R(b, 0);
    r.side()?;
    match r.take(1)?[0] {
        0 => {}
        1 => r.side()?,
        _ => return Err("bad option tag".into()),
    }
    Ok(())
}

fn corrupt(orig: &[u8], op: &CorruptOp, other_state: &[u8]) -> (Vec<u8>, String) {
    let len = orig.len();
    let at = |x: u16, n: usize| -> usize { (x as usize * n) >> 16 };
    match op {
        CorruptOp::Truncate(x) => {
            let k = at(*x, len);
            (orig[..k].to_vec(), format!("truncate@{}", k))
        }
        CorruptOp::BitFlip(x, bit) => {
            let k = at(*x, len);
            let mut v = orig.to_vec();
            v[k] ^= 1 << bit;
            (v, format!("bitflip@{}:{}", k, bit))
        }
        CorruptOp::Overwrite(x, bytes) => {
            let k = at(*x, len);
            let mut v = orig.to_vec();
            for (i, b) in bytes.iter().enumerate() {
                if k + i < v.len() {
                    v[k + i] = *b;
                }
            }
            (v, format!("overwrite@{}+{}", k, bytes.len()))
        }
        CorruptOp::Foreign(k) => {
            let v: Vec<u8> = match k {
                0 => vec![],
                1 => b"this is not a state file\n".to_vec(),
                2 => other_state.to_vec(),
                3 => {
                    let mut v = 1u64.to_le_bytes().to_vec();
                    v.extend_from_slice(&0x7fff_ffff_ffff_ffffu64.to_le_bytes());
                    v
                }
                4 => {
                    let mut v = 1u64.to_le_bytes().to_vec();
                    v.extend_from_slice(&0x0000_0002_0000_0000u64.to_le_bytes());
                    v
                }
                5 => vec![0xff; 64],
                6 => {
                    let mut v = u64::MAX.to_le_bytes().to_vec();
                    v.extend_from_slice(&[0u8; 32]);
                    v
                }
                _ => vec![0u8; 40],
            };
            (v, format!("foreign:{}", k))
        }
        CorruptOp::LengthPatch(x, k) => {
            let pos = at(*x, len.saturating_sub(8));
            let val: u64 = match k {
                0 => u64::MAX,
                1 => 0x7fff_ffff_ffff_ffff,
                2 => 0x0000_0001_0000_0000,
                3 => 0x4000_0000,
                4 => len as u64 + 1,
                _ => 0,
            };
            let mut v = orig.to_vec();
            if v.len() >= 8 {
                v[pos..pos + 8].copy_from_slice(&val.to_le_bytes());
            }
            (v, format!("lengthpatch@{}:{}", pos, k))
        }
        CorruptOp::Append(bytes) => {
            let mut v = orig.to_vec();
            v.extend_from_slice(bytes);
            (v, format!("append+{}", bytes.len()))
        }
    }
}

fn as_limit_env() -> Vec<(String, String)> {
    vec![]
}

fn run_plain(sb: &Sandbox, dir: &Path, targets: &[String], env: &[(String, String)]) -> ZOutcome {
    sb.clear_trace();
    run_zinoma(sb, dir, targets, env, Duration::from_secs(20), false)
}

pub fn eval_c05(case: &C05Case) -> CaseResult {
    let sb = Sandbox::new("c05");
    let dir = setup(&sb, case.two_targets);
    let observed: &str = if case.two_targets { "u" } else { "t" };
    let targets = vec![observed.to_string()];
    let state_path = |id: &str| sb.path(&format!("proj/.zinoma/{}.checksums", id));
    let mut res = CaseResult::default();
    let _ = as_limit_env();

    // 1. bring everything up to date
    let o1 = run_plain(&sb, &dir, &targets, &[]);
    let tr1 = sb.trace();
    if !o1.success() || started(&tr1, observed) != 1 {
        res.inconclusive = Some(format!("initial build failed: {:?}", o1.status));
        return res;
    }
    let orig = match std::fs::read(state_path(observed)) {
        Ok(b) => b,
        Err(e) => {
            res.inconclusive = Some(format!("no state file after the initial build: {}", e));
            return res;
        }
    };
    let other_state = std::fs::read(state_path("t")).unwrap_or_default();
    let decoder_calibrated = independent_decode(&orig).is_ok();
    let len = orig.len();
    let input_rel = if case.two_targets { "proj/usrc/u.txt" } else { "proj/src/a.txt" };
    let input_orig = std::fs::read(sb.path(input_rel)).unwrap_or_default();
    let change_input = |sb: &Sandbox| {
        sb.write(input_rel, b"input version 2 (changed)\n");
    };

    let mut must_run = true;
    let mut label;
    let mut inside = true;
    let mut offset_bucket = 0usize;
    let mut detail = json!({});
    match &case.fault {
        Fault::Corrupt { op, input_changed } => {
            let (bytes, l) = corrupt(&orig, op, &other_state);
            label = format!("corrupt:{}", l.split('@').next().unwrap_or(&l).split(':').next().unwrap_or(""));
            offset_bucket = l
                .split('@')
                .nth(1)
                .and_then(|s| s.split(|c: char| !c.is_ascii_digit()).next())
                .and_then(|s| s.parse::<usize>().ok())
                .map(|k| k * 8 / len.max(1))
                .unwrap_or(0);
            inside = bytes.len() == len && bytes != orig;
            std::fs::write(state_path(observed), &bytes).unwrap();
            if *input_changed {
                change_input(&sb);
                label.push_str("+input-changed");
            } else {
                // unchanged input: a skip is acceptable iff the bytes still decode
                must_run = decoder_calibrated && independent_decode(&bytes).is_err();
                if bytes == orig {
                    must_run = false;
                }
            }
            detail = json!({"corruption": l, "bytes_len": bytes.len(), "orig_len": len, "decodes": independent_decode(&bytes).is_ok(), "input_changed": input_changed,
                "head": bytes.iter().take(24).map(|b| format!("{:02x}", b)).collect::<Vec<_>>().join("")});
        }
        fault => {
            change_input(&sb);
            let mut env: Vec<(String, String)> = vec![];
            let mode_file = format!("mode.{}", observed);
            label = match fault {
                Fault::Exit(e) => {
                    sb.write(&mode_file, format!("exit:{}", e).as_bytes());
                    format!("exit:{}", e)
                }
                Fault::TailFails(k) => {
                    sb.write(&mode_file, format!("tail:{}", k % 2).as_bytes());
                    format!("tail-status:{}", if k % 2 == 0 { "and-list" } else { "negation" })
                }
                Fault::SelfKill => {
                    sb.write(&mode_file, b"selfkill");
                    "script-killed".to_string()
                }
                Fault::KillParent => {
                    sb.write(&mode_file, b"killparent");
                    "crash:script_running".to_string()
                }
                Fault::Crash(p) => {
                    env.push(("ZINOMA_VERIF_CRASH".into(), p.clone()));
                    env.push(("ZINOMA_VERIF_CRASH_TARGET".into(), observed.to_string()));
                    inside = p != "decided";
                    format!("crash:{}", p)
                }
                Fault::PartialWrite(x) => {
                    let k = ((*x as usize) * (len + 1)) >> 16;
                    env.push(("ZINOMA_VERIF_CRASH".into(), format!("partial_write:{}", k)));
                    env.push(("ZINOMA_VERIF_CRASH_TARGET".into(), observed.to_string()));
                    env.push((
                        "ZINOMA_VERIF_CRASH_LEN_FILE".into(),
                        sb.path("written_len").display().to_string(),
                    ));
                    offset_bucket = k * 8 / (len + 1);
                    detail = json!({"k": k});
                    format!("partial-write")
                }
                Fault::Signal(_, when, _) => {
                    if *when == 1 {
                        sb.write(&mode_file, b"hang");
                    }
                    inside = *when == 1;
                    format!("signal:{}", ["before", "during", "after"][*when as usize % 3])
                }
                Fault::Corrupt { .. } => unreachable!(),
            };
            // 2. the faulty invocation
            sb.clear_trace();
            match fault {
                Fault::Signal(int, when, d) => {
                    let sig = if *int { libc::SIGINT } else { libc::SIGTERM };
                    let mut z = spawn_zinoma(&sb, &dir, &targets, &env);
                    let t0 = Instant::now();
                    match when % 3 {
                        0 => std::thread::sleep(Duration::from_micros(*d as u64 * 300)),
                        1 => {
                            while !sb.path("started").exists() && t0.elapsed() < Duration::from_secs(10) && z.try_exit().is_none() {
                                std::thread::sleep(Duration::from_millis(1));
                            }
                            std::thread::sleep(Duration::from_millis(*d as u64));
                        }
                        _ => {
                            while finished(&sb.trace(), observed) == 0 && t0.elapsed() < Duration::from_secs(10) && z.try_exit().is_none() {
                                std::thread::sleep(Duration::from_micros(200));
                            }
                        }
                    }
                    z.signal(sig);
                    let o = z.wait(Duration::from_secs(20), false);
                    if o.timed_out {
                        res.inconclusive = Some("faulty invocation did not exit after the signal".into());
                        return res;
                    }
                }
                _ => {
                    let o = run_zinoma(&sb, &dir, &targets, &env, Duration::from_secs(30), false);
                    if o.timed_out {
                        res.inconclusive = Some("faulty invocation still busy at budget".into());
                        return res;
                    }
                    if let Fault::PartialWrite(_) = fault {
                        // k == full length: the record was written in full
                        if let (Some(k), Ok(s)) = (detail["k"].as_u64(), std::fs::read_to_string(sb.path("written_len"))) {
                            if let Ok(full) = s.trim().parse::<u64>() {
                                detail["full_len"] = json!(full);
                                if k >= full {
                                    must_run = false;
                                    inside = false;
                                }
                            }
                        }
                    }
                    if let Fault::Signal(..) = fault {}
                }
            }
            let tr2 = sb.trace();
            detail["faulty_run_trace"] = json!(tr2.iter().map(|t| format!("{} {}", t.kind, t.id)).collect::<Vec<_>>());
            // a signal that arrived after the build completed and was recorded: done is done
            if let Fault::Signal(_, when, _) = fault {
                if finished(&tr2, observed) > 0 && when % 3 != 1 {
                    must_run = false;
                    inside = false;
                }
                if started(&tr2, observed) == 0 {
                    inside = false;
                }
            }
            sb.kill_marked();
            let _ = std::fs::remove_file(sb.path(&mode_file));
            let _ = std::fs::remove_file(sb.path("started"));
            if case.revert {
                // the input goes back to what the *old* record describes: the interrupted build
                // must still not count as done. If the script never started and the old record
                // was legitimately still there (death before it was discarded), a skip is fine.
                sb.write(input_rel, &input_orig);
                label.push_str("+reverted");
                let script_started = started(&tr2, observed) > 0;
                let after_discard = matches!(fault, Fault::Crash(p) if p != "decided")
                    || matches!(fault, Fault::PartialWrite(_) | Fault::KillParent);
                if !(script_started || after_discard) {
                    must_run = false;
                }
            }
        }
    }

    // 3. the next plain invocation
    let o3 = run_plain(&sb, &dir, &targets, &[]);
    let tr3 = sb.trace();
    let ran = started(&tr3, observed) > 0;
    res.nontrivial = inside;
    res.fingerprint = format!("{}|{}|{}", label, offset_bucket, case.two_targets);
    res.classes = vec![
        label.split('+').next().unwrap_or("").to_string(),
        if case.two_targets { "two-targets".into() } else { "one-target".into() },
    ];
    res.sample = json!({"fault": format!("{:?}", case.fault), "label": label, "two_targets": case.two_targets, "next_invocation": if ran {"ran"} else {"skipped"}, "detail": detail});
    let replay = |msg: &str| json!({"engine": "BB-c05", "case": serde_json::to_value(case).unwrap(), "message": msg, "label": label, "detail": detail,
        "next_exit": o3.code(), "next_stderr_tail": o3.stderr.lines().rev().take(6).collect::<Vec<_>>()});
    let fail = |mut res: CaseResult, sig: &str, msg: String| {
        res.signature = Some(format!("bb-c05:{}", sig));
        res.replay = replay(&msg);
        res.violation = Some(msg);
        res
    };
    if o3.timed_out && !o3.stderr.contains("panicked at") {
        res.inconclusive = Some("next invocation still busy at budget".into());
        return res;
    }
    if o3.panicked() || o3.status.is_some_and(|s| std::os::unix::process::ExitStatusExt::signal(&s).is_some()) {
        let sig = if o3.stderr.contains("memory allocation") { "alloc-abort" } else { "panic" };
        return fail(
            res,
            sig,
            format!(
                "after {} the next invocation died ({:?}): {}",
                label,
                o3.status,
                o3.stderr.lines().last().unwrap_or("")
            ),
        );
    }
    if !o3.success() {
        return fail(
            res,
            "error",
            format!("after {} the next invocation exited with {:?}: {}", label, o3.status, o3.stderr.lines().last().unwrap_or("")),
        );
    }
    if must_run && !ran {
        return fail(
            res,
            "remembered",
            format!("after {} the next invocation skipped the build instead of running it again", label),
        );
    }
    res
}

pub fn replay_c05(v: &Value) -> Result<CaseResult, String> {
    let c: C05Case = serde_json::from_value(v["case"].clone()).map_err(|e| format!("bad C05 case: {}", e))?;
    Ok(eval_c05(&c))
}

/// Exhaustive sub-spaces for the thorough tier: every partial-write offset, every truncation
/// offset, one bit flip per byte.
pub fn exhaustive_cases(two_targets: bool, len_hint: usize) -> Vec<C05Case> {
    let mut v = vec![];
    let n = len_hint + 1;
    for k in 0..=n {
        // x such that (x * (len+1)) >> 16 == k  (smallest such x)
        let x = ((k << 16) + n - 1) / n.max(1);
        if x <= u16::MAX as usize {
            v.push(C05Case { two_targets, fault: Fault::PartialWrite(x as u16), revert: k % 2 == 1 });
        }
    }
    for k in 0..len_hint {
        let x = ((k << 16) + len_hint - 1) / len_hint.max(1);
        if x <= u16::MAX as usize {
            for input_changed in [true, false] {
                v.push(C05Case { two_targets, fault: Fault::Corrupt { op: CorruptOp::Truncate(x as u16), input_changed }, revert: false });
            }
            v.push(C05Case { two_targets, fault: Fault::Corrupt { op: CorruptOp::BitFlip(x as u16, (k % 8) as u8), input_changed: k % 2 == 0 }, revert: false });
        }
    }
    v
}
