//! Runs the libFuzzer targets (built by cargo-fuzz) as child processes and turns their outcome
//! into a coverage part / violations.

use super::bb::scratch_base;
use super::report::*;
use serde_json::json;
use std::path::{Path, PathBuf};
use std::process::Command;

pub fn fuzz_bin(target: &str) -> PathBuf {
    verif_dir()
        .join("harness/fuzz/target/x86_64-unknown-linux-gnu/release")
        .join(target)
}

pub struct FuzzSpec<'a> {
    pub target: &'a str,
    pub runs: u64,
    pub max_len: u32,
    pub dict: Option<PathBuf>,
    pub corpus_seed_dir: PathBuf,
    pub extra_seeds: Vec<(String, Vec<u8>)>,
    pub jobs: usize,
    pub rule: &'a str,
    /// Classifies a corpus entry as non-trivial (gets past the first parsing layer).
    pub nontrivial: fn(&[u8]) -> bool,
}

pub fn run_fuzz(ctx: &Ctx, report: &mut Report, spec: FuzzSpec) {
    let bin = fuzz_bin(spec.target);
    if !bin.exists() {
        report
            .infra_errors
            .push(format!("fuzz target {} is not built ({})", spec.target, bin.display()));
        return;
    }
    let mut part = Part::new("FUZZ", spec.rule);
    let work = scratch_base().join(format!("zvfuzzrun{}-{}", std::process::id(), spec.target));
    let _ = std::fs::remove_dir_all(&work);
    let jobs = spec.jobs.max(1);
    let mut children = vec![];
    for j in 0..jobs {
        let corpus = work.join(format!("corpus{}", j));
        let artifacts = work.join(format!("artifacts{}", j));
        std::fs::create_dir_all(&corpus).unwrap();
        std::fs::create_dir_all(&artifacts).unwrap();
        if let Ok(rd) = std::fs::read_dir(&spec.corpus_seed_dir) {
            for e in rd.flatten() {
                let _ = std::fs::copy(e.path(), corpus.join(e.file_name()));
            }
        }
        for (name, bytes) in &spec.extra_seeds {
            let _ = std::fs::write(corpus.join(name), bytes);
        }
        let mut cmd = Command::new(&bin);
        cmd.arg(&corpus)
            .arg(format!("-runs={}", spec.runs / jobs as u64))
            .arg(format!("-seed={}", (ctx.seed.wrapping_mul(7919).wrapping_add(j as u64 + 1)) % 4_000_000_000 + 1))
            .arg(format!("-max_len={}", spec.max_len))
            .arg("-len_control=0")
            .arg("-rss_limit_mb=4096")
            .arg("-timeout=25")
            .arg(format!("-artifact_prefix={}/", artifacts.display()))
            .arg("-print_final_stats=1");
        if let Some(d) = &spec.dict {
            cmd.arg(format!("-dict={}", d.display()));
        }
        cmd.env("ZV_FUZZ_STATS", work.join(format!("stats{}.json", j)));
        cmd.env("RUST_BACKTRACE", "0");
        // the target's own scratch lives inside the work directory (removed below)
        cmd.env("ZV_SCRATCH", &work);
        cmd.stdout(std::process::Stdio::null());
        cmd.stderr(std::fs::File::create(work.join(format!("log{}.txt", j))).unwrap());
        children.push((j, cmd.spawn().expect("spawn fuzz target")));
    }
    for (j, mut child) in children {
        let status = child.wait().expect("wait");
        let log = std::fs::read_to_string(work.join(format!("log{}.txt", j))).unwrap_or_default();
        let execs = log
            .lines()
            .find_map(|l| l.strip_prefix("stat::number_of_executed_units:"))
            .and_then(|s| s.trim().parse::<u64>().ok())
            .unwrap_or(0);
        part.evaluations += execs;
        // corpus entries = the distinct interesting inputs found / kept
        let corpus = work.join(format!("corpus{}", j));
        if let Ok(rd) = std::fs::read_dir(&corpus) {
            for e in rd.flatten() {
                if let Ok(bytes) = std::fs::read(e.path()) {
                    part.class("corpus-entry");
                    if (spec.nontrivial)(&bytes) {
                        let fresh = part.nontrivial.insert(fnv(&String::from_utf8_lossy(&bytes)));
                        if fresh && part.samples.len() < 3 {
                            part.samples.push(json!(String::from_utf8_lossy(&bytes).chars().take(300).collect::<String>()));
                        }
                    }
                }
            }
        }
        if let Ok(s) = std::fs::read_to_string(work.join(format!("stats{}.json", j))) {
            if let Ok(v) = serde_json::from_str::<serde_json::Value>(&s) {
                part.extra.insert(format!("in_target_counters_job{}", j), v);
            }
        }
        if !status.success() {
            // a crash / failed oracle: keep the artifact as the replay file
            let artifacts = work.join(format!("artifacts{}", j));
            let mut saved = None;
            if let Ok(rd) = std::fs::read_dir(&artifacts) {
                for e in rd.flatten() {
                    let dest_dir = verif_dir().join("replays").join(&ctx.property).join("found");
                    let _ = std::fs::create_dir_all(&dest_dir);
                    let dest = dest_dir.join(format!("fuzz-{}-{}", spec.target, e.file_name().to_string_lossy()));
                    let _ = std::fs::copy(e.path(), &dest);
                    saved = Some(dest);
                }
            }
            let reason = log
                .lines()
                .find(|l| l.contains("panicked at") || l.contains("ERROR: libFuzzer") || l.contains("memory allocation"))
                .unwrap_or("fuzz target died")
                .to_string();
            let detail = log
                .lines()
                .skip_while(|l| !l.contains("panicked at"))
                .nth(1)
                .unwrap_or("")
                .to_string();
            let msg = format!("fuzz target {}: {} {}", spec.target, reason.trim(), detail.trim());
            match saved {
                Some(p) => {
                    report.failures.push(Failure {
                        message: msg,
                        signature: format!("fuzz:{}:{}", spec.target, reason.split(':').next().unwrap_or("")),
                        replay: json!({"engine": "FUZZ", "target": spec.target, "input_file": p.display().to_string()}),
                    });
                }
                None => report.infra_errors.push(format!("{} (no artifact; exit {:?})", msg, status)),
            }
        }
    }
    part.extra.insert("jobs".into(), json!(jobs));
    let _ = std::fs::remove_dir_all(&work);
    report.add(part);
}

/// Replays a raw fuzz input (a file that is not a JSON replay).
pub fn replay_raw(ctx: &Ctx, report: &mut Report, target: &str, input: &Path) {
    let bin = fuzz_bin(target);
    let out = Command::new(&bin)
        .arg(input)
        .env("RUST_BACKTRACE", "0")
        .env("ZV_SCRATCH", scratch_base())
        .output();
    match out {
        Ok(o) if o.status.success() => {}
        Ok(o) => {
            let log = String::from_utf8_lossy(&o.stderr).to_string();
            let reason = log.lines().find(|l| l.contains("panicked at") || l.contains("memory allocation")).unwrap_or("fuzz target died").to_string();
            report.failures.push(Failure {
                message: reason,
                signature: format!("fuzz:{}", target),
                replay: json!({"engine": "FUZZ", "target": target, "input_file": input.display().to_string()}),
            });
        }
        Err(e) => report.infra_errors.push(format!("cannot run {}: {}", bin.display(), e)),
    }
}
