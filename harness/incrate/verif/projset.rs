//! Generated sets of project files (AST level) with an independent validator and an independent
//! reference resolver; used by the INC parts of C09, C14 and C19.

use super::bb::*;
use proptest::prelude::*;
use serde::{Deserialize, Serialize};
use serde_json::{json, Map, Value};
use std::collections::{BTreeMap, BTreeSet};
use std::path::{Path, PathBuf};

#[derive(Debug, Clone, Copy, PartialEq, Eq, Serialize, Deserialize, PartialOrd, Ord)]
pub enum PKind {
    Build,
    Service,
    Aggregate,
}

/// A reference as written in a project file.
#[derive(Debug, Clone, PartialEq, Eq, Serialize, Deserialize, PartialOrd, Ord)]
pub struct PRef {
    pub project: Option<String>,
    pub target: String,
}

impl PRef {
    pub fn text(&self) -> String {
        match &self.project {
            Some(p) => format!("{}::{}", p, self.target),
            None => self.target.clone(),
        }
    }
}

/// Schema-level defects injected into a target / project document.
#[derive(Debug, Clone, Copy, PartialEq, Eq, Serialize, Deserialize, PartialOrd, Ord)]
pub enum SchemaMut {
    None,
    UnknownTargetKey,
    TwoKinds,
    NoKind,
    UnknownProjectKey,
    UnknownResourceKey,
    DependenciesNotAList,
    OutputOnService,
}

#[derive(Debug, Clone, Serialize, Deserialize)]
pub struct PTarget {
    pub name: String,
    pub kind: PKind,
    pub deps: Vec<PRef>,
    /// `X.output` inputs.
    pub outs: Vec<PRef>,
    pub mutation: SchemaMut,
}

#[derive(Debug, Clone, Serialize, Deserialize)]
pub struct PProject {
    /// Directory relative to the sandbox root.
    pub dir: String,
    pub name: Option<String>,
    /// (import key, index of the imported project)
    pub imports: Vec<(String, usize)>,
    pub targets: Vec<PTarget>,
    pub mutation: SchemaMut,
}

#[derive(Debug, Clone, Serialize, Deserialize)]
pub struct ProjSet {
    pub projects: Vec<PProject>,
}

const DIRS: [&str; 4] = ["proj", "proj/a", "proj/b", "proj/sub/c"];
const GOOD_PROJECT_NAMES: [&str; 4] = ["pa", "pb", "pc", "root"];
/// The last three are valid per `^\w[-\w]*$` but not "alphanumeric": a combining mark (Mn), a
/// connector punctuation (Pc) and a join control inside the name.
const TARGET_NAMES: [&str; 8] = ["a", "b", "c", "t-1", "_x", "cafe\u{301}", "u\u{203F}v", "\u{915}\u{94D}\u{200D}\u{937}"];
const BAD_NAMES: [&str; 6] = ["-bad", "a b", "a::b", "", "a.b", "x/y"];
/// Valid per `^\w[-\w]*$` with Unicode word characters.
const UNICODE_NAMES: [&str; 3] = ["été", "目标", "ß-1"];

#[derive(Debug, Clone, Copy)]
pub struct PsParams {
    /// Probability class of name / import / schema defects (0 = none).
    pub defects: u8,
    /// Unknown / cyclic / bad `.output` references allowed.
    pub broken_refs: bool,
}

pub fn projset(p: PsParams) -> impl Strategy<Value = ProjSet> {
    // plain names get most of the weight so that different projects often hold homonyms
    let tgt = (
        (0usize..13).prop_map(|i| [0usize, 0, 0, 1, 1, 1, 2, 2, 3, 4, 5, 6, 7][i]),
        0u8..10,
        prop::collection::vec((any::<u8>(), any::<u8>(), any::<u8>()), 0..=3),
        any::<u8>(),
        any::<u8>(),
    );
    let proj = (
        any::<u8>(),
        prop::collection::vec(tgt, 1..=4),
        any::<u8>(),
        any::<u8>(),
        any::<u8>(),
    );
    (prop::collection::vec(proj, 1..=4), any::<u8>(), any::<u8>()).prop_map(
        move |(raw, cyc_b, dup_b)| {
            let n = raw.len();
            let defect = |b: u8, threshold: u8| p.defects > 0 && b >= threshold;
            // project names
            let mut names: Vec<Option<String>> = Vec::new();
            for (i, (name_b, _, _, _, _)) in raw.iter().enumerate() {
                let nm = if i == 0 {
                    match name_b % 3 {
                        0 => None,
                        _ => Some("root".to_string()),
                    }
                } else {
                    Some(GOOD_PROJECT_NAMES[(i - 1) % 3].to_string())
                };
                names.push(nm);
            }
            // name defects
            for (i, (name_b, _, _, _, _)) in raw.iter().enumerate() {
                if defect(*name_b, 236) {
                    names[i] = match name_b % 5 {
                        0 if i > 0 => None, // unnamed import
                        1 => Some(BAD_NAMES[(*name_b as usize / 5) % BAD_NAMES.len()].to_string()),
                        2 => Some(UNICODE_NAMES[(*name_b as usize / 5) % 3].to_string()),
                        _ => names[i].clone(),
                    };
                }
            }
            // duplicate project name (two different directories, same name)
            if defect(dup_b, 215) && n >= 2 {
                let a = (dup_b as usize) % n;
                let b = (a + 1 + (dup_b as usize / 7) % (n - 1)) % n;
                if names[a].is_some() {
                    names[b] = names[a].clone();
                } else if names[b].is_some() {
                    // root unnamed: duplicate among imports instead
                    let c = (b + 1) % n;
                    if c != a && c != b {
                        names[c] = names[b].clone();
                    }
                }
            }
            // first pass: target names and kinds of every project (references then mostly
            // name existing targets)
            let mut tnames: Vec<Vec<(String, PKind)>> = Vec::new();
            for (_name_b, tgts, _, _, _) in raw.iter() {
                let mut v: Vec<(String, PKind)> = Vec::new();
                for (ti, (name_i, kind_b, _refs, _mut_t, bad_name_b)) in tgts.iter().enumerate() {
                    let mut name = TARGET_NAMES[*name_i].to_string();
                    if v.iter().any(|t| t.0 == name) {
                        name = format!("{}{}", name, ti);
                    }
                    if defect(*bad_name_b, 246) {
                        name = if bad_name_b % 2 == 0 {
                            BAD_NAMES[(*bad_name_b as usize / 2) % BAD_NAMES.len()].to_string()
                        } else {
                            UNICODE_NAMES[(*bad_name_b as usize / 2) % 3].to_string()
                        };
                        if v.iter().any(|t| t.0 == name) {
                            name = format!("{}{}", name, ti);
                        }
                    }
                    let kind = match kind_b {
                        0..=5 => PKind::Build,
                        6..=7 => PKind::Service,
                        _ => PKind::Aggregate,
                    };
                    v.push((name, kind));
                }
                tnames.push(v);
            }
            let mut projects: Vec<PProject> = Vec::new();
            for (i, (_name_b, tgts, imp_b, mut_b, nest_b)) in raw.iter().enumerate() {
                let mut targets: Vec<PTarget> = Vec::new();
                for (ti, (_name_i, kind_b, refs, mut_t, _bad_name_b)) in tgts.iter().enumerate() {
                    let name = tnames[i][ti].0.clone();
                    let kind = match kind_b {
                        0..=5 => PKind::Build,
                        6..=7 => PKind::Service,
                        _ => PKind::Aggregate,
                    };
                    let mut deps = vec![];
                    let mut outs = vec![];
                    for (sel, pj, flags) in refs {
                        // destination: a target name from the small alphabet (may or may not
                        // exist in the destination project), bare or qualified
                        // destination project: own (bare or qualified) or another one
                        let (dest, project) = match pj % 4 {
                            0 | 1 => (i, None),
                            2 => {
                                let d = (*pj as usize / 4) % n;
                                if p.broken_refs && *flags >= 232 && *flags < 236 {
                                    (d, Some("nowhere".to_string()))
                                } else if p.broken_refs && *flags >= 236 && *flags < 240 {
                                    // one `::` too many: addresses a project through another one
                                    (d, Some(format!("{}::sub", names[d].clone().unwrap_or_else(|| "nowhere".to_string()))))
                                } else if names[d].is_some() {
                                    (d, names[d].clone())
                                } else {
                                    (i, None)
                                }
                            }
                            _ => (i, names[i].clone()),
                        };
                        // references mostly point "backwards" in the (project, target) order so
                        // that valid (acyclic) sets are common; the rest may close cycles
                        let (dest, project) = if dest > i && flags % 16 != 3 {
                            (i, if pj % 2 == 0 { None } else { names[i].clone() })
                        } else {
                            (dest, project)
                        };
                        // mostly an existing target of the destination; going *forward* in the
                        // (project, target) order mostly, so that cycles stay the exception
                        let existing = &tnames[dest];
                        let tname = if p.broken_refs && *flags >= 240 {
                            "nosuch".to_string()
                        } else if flags % 8 == 7 {
                            TARGET_NAMES[(*sel as usize) % TARGET_NAMES.len()].to_string()
                        } else {
                            if dest == i && ti == 0 && flags % 16 != 3 {
                                // the first target of a project has nothing "before" it
                                continue;
                            }
                            let k = if dest == i && ti > 0 && flags % 16 != 3 {
                                (*sel as usize) % ti
                            } else {
                                (*sel as usize) % existing.len()
                            };
                            existing[k].0.clone()
                        };
                        let r = PRef {
                            project,
                            target: tname,
                        };
                        if flags % 3 == 1 && kind != PKind::Aggregate {
                            outs.push(r);
                        } else {
                            deps.push(r);
                        }
                    }
                    // "twin" reference: the same target name in another project as well, so that one
                    // target depends on two homonyms (one in two targets that have a dependency and a homonym in an earlier project)
                    if mut_t % 2 == 0 {
                        if let Some(first) = deps.first().cloned() {
                            for d in 0..i {
                                if names[d].is_some()
                                    && names[d] != first.project
                                    && Some(&names[d]) != Some(&names[i]).filter(|_| first.project.is_none())
                                    && tnames[d].iter().any(|t| t.0 == first.target)
                                {
                                    let twin = PRef { project: names[d].clone(), target: first.target.clone() };
                                    if !deps.contains(&twin) {
                                        deps.push(twin);
                                    }
                                    break;
                                }
                            }
                        }
                    }
                    let mutation = if defect(*mut_t, 238) {
                        match mut_t % 6 {
                            0 => SchemaMut::UnknownTargetKey,
                            1 => SchemaMut::TwoKinds,
                            2 => SchemaMut::NoKind,
                            3 => SchemaMut::UnknownResourceKey,
                            4 => SchemaMut::DependenciesNotAList,
                            _ => SchemaMut::OutputOnService,
                        }
                    } else {
                        SchemaMut::None
                    };
                    targets.push(PTarget {
                        name,
                        kind,
                        deps,
                        outs,
                        mutation,
                    });
                }
                // imports: the root imports every other project (a tree); some projects import
                // further ones (DAG), cycles and self-imports are added below
                let mut imports: Vec<(String, usize)> = vec![];
                let key_of = |j: usize, b: u8| -> String {
                    if defect(b, 240) {
                        "wrongkey".to_string()
                    } else {
                        names[j].clone().unwrap_or_else(|| format!("noname{}", j))
                    }
                };
                if i == 0 {
                    for j in 1..n {
                        // nested import: j is imported by j-1 instead of by the root
                        if j >= 2 && raw[j].4 % 4 == 0 {
                            continue;
                        }
                        imports.push((key_of(j, raw[j].2.wrapping_mul(31)), j));
                    }
                } else {
                    if i + 1 < n && raw[i + 1].4 % 4 == 0 && i + 1 >= 2 {
                        imports.push((key_of(i + 1, raw[i + 1].2.wrapping_mul(17)), i + 1));
                    }
                    // import cycle back to the root / self-import
                    if cyc_b % 5 == 0 && i == 1 && (names[0].is_some() || p.defects > 0) {
                        imports.push((key_of(0, 0), 0));
                    }
                    if cyc_b % 7 == 0 && i == n - 1 {
                        imports.push((key_of(i, 0), i));
                    }
                }
                let _ = (imp_b, nest_b);
                // `imports` is a map: a key can only be used once (the last one wins)
                let mut dedup: Vec<(String, usize)> = vec![];
                for (k, j) in imports.into_iter() {
                    dedup.retain(|(k2, _)| *k2 != k);
                    dedup.push((k, j));
                }
                let imports = dedup;
                let mutation = if defect(*mut_b, 248) {
                    SchemaMut::UnknownProjectKey
                } else {
                    SchemaMut::None
                };
                projects.push(PProject {
                    dir: DIRS[i].to_string(),
                    name: names[i].clone(),
                    imports,
                    targets,
                    mutation,
                });
            }
            ProjSet { projects }
        },
    )
}

fn rel_import(from: &str, to: &str) -> String {
    // both relative to the sandbox root; compute a relative path from `from` to `to`
    let f: Vec<&str> = from.split('/').collect();
    let t: Vec<&str> = to.split('/').collect();
    let mut k = 0;
    while k < f.len() && k < t.len() && f[k] == t[k] {
        k += 1;
    }
    let mut parts: Vec<String> = vec![];
    for _ in k..f.len() {
        parts.push("..".into());
    }
    for x in &t[k..] {
        parts.push(x.to_string());
    }
    if parts.is_empty() {
        ".".into()
    } else {
        parts.join("/")
    }
}

impl ProjSet {
    pub fn write(&self, sb: &Sandbox, script: &dyn Fn(usize, &PTarget) -> String) {
        for (pi, p) in self.projects.iter().enumerate() {
            let mut targets = Map::new();
            for t in &p.targets {
                let deps: Vec<Value> = t.deps.iter().map(|r| json!(r.text())).collect();
                let mut input: Vec<Value> = t
                    .outs
                    .iter()
                    .map(|r| json!(format!("{}.output", r.text())))
                    .collect();
                if t.mutation == SchemaMut::UnknownResourceKey {
                    input.push(json!({"paths": ["src"], "extension": ["rs"]}));
                }
                // schema-valid files resources of unusual but legal spelling (one target in two):
                // paths ending in `..`, `.` and a missing directory, with an extension filter
                // (inputs only: a declared output would make every consumer of `<t>.output`
                // skippable and repeated invocations would no longer run the same set)
                let odd_paths = super::report::fnv(&t.name) % 2 == 0;
                if odd_paths {
                    input.push(json!({"paths": ["gen/..", ".", "missing/.."], "extensions": ["zvgen", ""]}));
                    // ... and a command whose output never repeats, so that declaring inputs does
                    // not make the target skippable (repeated invocations stay comparable)
                    input.push(json!({"cmd_stdout": "echo $$; date +%s%N"}));
                }
                let mut doc = Map::new();
                match t.mutation {
                    SchemaMut::DependenciesNotAList => {
                        doc.insert("dependencies".into(), json!("a"));
                    }
                    _ => {
                        doc.insert("dependencies".into(), json!(deps));
                    }
                }
                let scr = script(pi, t);
                match (t.kind, t.mutation) {
                    (_, SchemaMut::NoKind) => {
                        doc.remove("dependencies");
                        if !input.is_empty() {
                            doc.insert("input".into(), json!(input));
                        }
                    }
                    (_, SchemaMut::TwoKinds) => {
                        doc.insert("build".into(), json!(scr));
                        doc.insert("service".into(), json!(scr));
                    }
                    (PKind::Build, _) => {
                        doc.insert("build".into(), json!(scr));
                        doc.insert("input".into(), json!(input));
                    }
                    (PKind::Service, m) => {
                        doc.insert("service".into(), json!(scr));
                        doc.insert("input".into(), json!(input));
                        if m == SchemaMut::OutputOnService {
                            doc.insert("output".into(), json!([{"paths": ["out"]}]));
                        }
                    }
                    (PKind::Aggregate, _) => {}
                }
                if t.mutation == SchemaMut::UnknownTargetKey {
                    doc.insert("timeout".into(), json!(3));
                }
                targets.insert(t.name.clone(), Value::Object(doc));
            }
            let mut doc = Map::new();
            if let Some(name) = &p.name {
                doc.insert("name".into(), json!(name));
            }
            if !p.imports.is_empty() {
                let mut imports = Map::new();
                for (key, j) in &p.imports {
                    imports.insert(key.clone(), json!(rel_import(&p.dir, &self.projects[*j].dir)));
                }
                doc.insert("imports".into(), Value::Object(imports));
            }
            doc.insert("targets".into(), Value::Object(targets));
            if p.mutation == SchemaMut::UnknownProjectKey {
                doc.insert("version".into(), json!(2));
            }
            write_project(&sb.path(&p.dir), &Value::Object(doc));
            sb.write(&format!("{}/gen/sub/keep.txt", p.dir), b"keeps gen/ and gen/sub/ in place\n");
        }
    }

    /// Projects reachable from the root through imports, in discovery order.
    pub fn loaded(&self) -> Vec<usize> {
        let mut seen = vec![0usize];
        let mut k = 0;
        while k < seen.len() {
            let i = seen[k];
            for (_, j) in &self.projects[i].imports {
                if !seen.contains(j) {
                    seen.push(*j);
                }
            }
            k += 1;
        }
        seen
    }

    /// Independent validator over the AST: does the documented schema accept this set?
    /// Returns the list of reasons for rejection (empty = valid).
    pub fn invalid_reasons(&self, check_unique_names: bool) -> Vec<String> {
        let mut why = vec![];
        let loaded = self.loaded();
        for &i in &loaded {
            let p = &self.projects[i];
            if let Some(n) = &p.name {
                if !valid_name(n) {
                    why.push(format!("invalid project name {:?}", n));
                }
            }
            if p.mutation != SchemaMut::None {
                why.push(format!("{:?} in project {}", p.mutation, p.dir));
            }
            let mut import_keys = BTreeSet::new();
            for (key, j) in &p.imports {
                import_keys.insert(key.clone());
                match &self.projects[*j].name {
                    None => why.push(format!("{} imports the unnamed project {}", p.dir, self.projects[*j].dir)),
                    Some(n) if n != key => why.push(format!(
                        "{} imports {} under key {:?} but its name is {:?}",
                        p.dir, self.projects[*j].dir, key, n
                    )),
                    _ => {}
                }
            }
            for t in &p.targets {
                if !valid_name(&t.name) {
                    why.push(format!("invalid target name {:?}", t.name));
                }
                let effective = match (t.mutation, t.kind) {
                    (SchemaMut::None, _) => false,
                    (SchemaMut::OutputOnService, k) => k == PKind::Service,
                    (SchemaMut::UnknownResourceKey, k) => k != PKind::Aggregate,
                    _ => true,
                };
                if effective {
                    why.push(format!("{:?} on target {:?}", t.mutation, t.name));
                }
            }
        }
        if check_unique_names {
            let mut seen: BTreeMap<String, usize> = BTreeMap::new();
            for &i in &loaded {
                if let Some(n) = &self.projects[i].name {
                    if let Some(prev) = seen.insert(n.clone(), i) {
                        why.push(format!(
                            "projects {} and {} are both named {:?}",
                            self.projects[prev].dir, self.projects[i].dir, n
                        ));
                    }
                }
            }
        }
        why
    }

    pub fn has_duplicate_names(&self) -> bool {
        let loaded = self.loaded();
        let mut seen = BTreeSet::new();
        for &i in &loaded {
            if let Some(n) = &self.projects[i].name {
                if !seen.insert(n.clone()) {
                    return true;
                }
            }
        }
        false
    }

    /// Every requestable name with the (project index, target index) it denotes.
    /// Only meaningful when project names are unique.
    pub fn name_map(&self) -> BTreeMap<String, (usize, usize)> {
        let mut m = BTreeMap::new();
        for &i in &self.loaded() {
            let p = &self.projects[i];
            for (ti, t) in p.targets.iter().enumerate() {
                match &p.name {
                    Some(n) => {
                        m.insert(format!("{}::{}", n, t.name), (i, ti));
                        if i == 0 {
                            m.insert(t.name.clone(), (i, ti));
                        }
                    }
                    None => {
                        m.insert(t.name.clone(), (i, ti));
                    }
                }
            }
        }
        m
    }

    fn project_by_name(&self, name: &Option<String>) -> Option<usize> {
        self.loaded()
            .into_iter()
            .find(|&i| &self.projects[i].name == name)
    }

    /// Reference resolution of a reference made inside project `from`.
    pub fn resolve_ref(&self, from: usize, r: &PRef) -> Result<(usize, usize), String> {
        let pname = match &r.project {
            Some(p) => Some(p.clone()),
            None => self.projects[from].name.clone(),
        };
        let pi = self
            .project_by_name(&pname)
            .ok_or_else(|| format!("unknown project {:?}", pname))?;
        let ti = self.projects[pi]
            .targets
            .iter()
            .position(|t| t.name == r.target)
            .ok_or_else(|| format!("unknown target {}", r.text()))?;
        Ok((pi, ti))
    }

    /// Reference resolver: closure of the requested targets, or the reason for refusing.
    pub fn reference_closure(
        &self,
        roots: &[(usize, usize)],
    ) -> Result<BTreeSet<(usize, usize)>, String> {
        // reachability + defects
        let mut seen: BTreeSet<(usize, usize)> = BTreeSet::new();
        let mut stack: Vec<(usize, usize)> = roots.to_vec();
        let mut edges: BTreeMap<(usize, usize), Vec<(usize, usize)>> = BTreeMap::new();
        while let Some(n) = stack.pop() {
            if !seen.insert(n) {
                continue;
            }
            let t = &self.projects[n.0].targets[n.1];
            let mut out = vec![];
            for r in &t.deps {
                let d = self.resolve_ref(n.0, r)?;
                out.push(d);
            }
            for r in &t.outs {
                let d = self.resolve_ref(n.0, r)?;
                if self.projects[d.0].targets[d.1].kind != PKind::Build {
                    return Err(format!("{}.output of a non-build target", r.text()));
                }
                out.push(d);
            }
            stack.extend(out.iter().copied());
            edges.insert(n, out);
        }
        // cycle test by colouring (iterative)
        let mut colour: BTreeMap<(usize, usize), u8> = BTreeMap::new();
        for &start in &seen {
            if colour.get(&start).copied().unwrap_or(0) != 0 {
                continue;
            }
            let mut st: Vec<((usize, usize), usize)> = vec![(start, 0)];
            colour.insert(start, 1);
            while let Some((n, k)) = st.pop() {
                let es = &edges[&n];
                if k < es.len() {
                    st.push((n, k + 1));
                    let m = es[k];
                    match colour.get(&m).copied().unwrap_or(0) {
                        0 => {
                            colour.insert(m, 1);
                            st.push((m, 0));
                        }
                        1 => return Err(format!("cycle through {:?}", m)),
                        _ => {}
                    }
                } else {
                    colour.insert(n, 2);
                }
            }
        }
        Ok(seen)
    }

    pub fn summary(&self) -> Value {
        json!(self
            .projects
            .iter()
            .map(|p| json!({
                "dir": p.dir, "name": p.name,
                "imports": p.imports.iter().map(|(k, j)| format!("{} -> {}", k, self.projects[*j].dir)).collect::<Vec<_>>(),
                "mutation": format!("{:?}", p.mutation),
                "targets": p.targets.iter().map(|t| format!("{}:{:?} deps={:?} out={:?}{}", t.name, t.kind,
                    t.deps.iter().map(|r| r.text()).collect::<Vec<_>>(),
                    t.outs.iter().map(|r| r.text()).collect::<Vec<_>>(),
                    if t.mutation != SchemaMut::None { format!(" {:?}", t.mutation) } else { String::new() })).collect::<Vec<_>>(),
            }))
            .collect::<Vec<_>>())
    }
}

/// `^\w[-\w]*$` with Unicode word characters (alphanumeric, marks, connector punctuation).
pub fn valid_name(s: &str) -> bool {
    let mut chars = s.chars();
    // only ever applied to the name tables above: the listed marks / connector / join control
    // are word characters (\p{M}, \p{Pc}, \p{Join_Control}) without being alphanumeric
    let word = |c: char| c.is_alphanumeric() || c == '_' || matches!(c, '\u{301}' | '\u{203F}' | '\u{94D}' | '\u{200D}');
    match chars.next() {
        Some(c) if word(c) => chars.all(|c| word(c) || c == '-'),
        _ => false,
    }
}

/// Used by the fuzz target on arbitrary accepted names: same rule, any characters.
pub fn valid_name_regex_compatible(s: &str) -> bool {
    let mut chars = s.chars();
    // \w in the regex crate: alphabetic, marks, decimal numbers, connector punctuation, join controls
    let word = |c: char| c.is_alphanumeric() || c == '_' || (!c.is_ascii() && !c.is_whitespace() && !c.is_control());
    match chars.next() {
        Some(c) if word(c) => chars.all(|c| word(c) || c == '-'),
        _ => false,
    }
}
