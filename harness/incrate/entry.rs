/// Verification harness, compiled into the crate under test (cfg(zinoma_verif)).
pub mod verif {
    pub mod bb;
    pub mod bb_c03w;
    pub mod bb_c05;
    pub mod bb_c06;
    pub mod bb_c10;
    pub mod bb_c11w;
    pub mod bb_c12;
    pub mod bb_c16;
    pub mod bb_c20w;
    pub mod bb_c18;
    pub mod bb_config;
    pub mod bb_graph;
    pub mod bb_oneshot;
    pub mod cli;
    pub mod fuzz;
    pub mod fuzz_driver;
    pub mod graph;
    pub mod hooks;
    pub mod inc_config;
    pub mod inc_fs;
    pub mod inc_incr;
    pub mod inc_watch;
    pub mod projset;
    pub mod prop;
    pub mod report;
    pub mod sim;
    pub mod tree;
    pub mod sim_oracles;
    pub mod sim_runner;

    /// The repository's own entry point (used by the pass-through `zinoma` binary).
    pub fn real_main() {
        if let Err(e) = super::main() {
            eprintln!("Error: {:?}", e);
            std::process::exit(1);
        }
    }

    pub fn cli_main() -> i32 {
        cli::main()
    }
}
