#!/usr/bin/env python3
"""Sensitivity protocol: apply one hand-written mutation to /repo, run the given checks, revert.

usage: tools/sensitivity.py <mutation> <ID> [<ID>...]     (or `list`)
The mutation is applied to /repo's working tree and ALWAYS reverted (git checkout -- .).
"""
import subprocess, sys, os

R = '/repo/'
M = {
 # name: (file, old, new, expected-to-be-caught-by)
 'c01-should-execute-build-only': ('src/engine/target_actor/target_actor_helper.rs',
   "            && self.unavailable_dependencies[&ExecutionKind::Service].is_empty()\n", "", 'C01'),
 'c01-aggregate-first-ack': ('src/engine/target_actor/aggregate_target_actor.rs',
   "if removed && self.helper.unavailable_dependencies[&kind].is_empty() {", "if removed {", 'C01 C20'),
 'c01-no-reinsert-invalidated': ('src/engine/target_actor/build_target_actor.rs',
   "                            self.helper.unavailable_dependencies.get_mut(&kind).unwrap().insert(target_id);\n", "", 'C01 C06'),
 'c01-drop-output-dependency': ('src/config/ir.rs',
   "            target.extend_dependencies(&dependencies_from_input);\n", "", 'C01 C09 C13'),
 'c01-service-ok-before-spawn': ('src/engine/target_actor/service_target_actor.rs',
   "                            let inserted = self.helper.requesters.get_mut(&ExecutionKind::Service).unwrap().insert(requester.clone());\n",
   "                            let inserted = self.helper.requesters.get_mut(&ExecutionKind::Service).unwrap().insert(requester.clone());\n                            self.helper.send_to_actor(requester.clone(), ActorInputMessage::Ok { kind: ExecutionKind::Service, target_id: self.helper.target_id.clone(), actual: true }).await;\n", 'C01 C11'),
 'c04-drop-late-ack-build': ('src/engine/target_actor/build_target_actor.rs',
   "self.helper.notify_late_requester(ExecutionKind::Build, requester).await;", "let _ = requester;", 'C04'),
 'c04-drop-late-ack-service': ('src/engine/target_actor/service_target_actor.rs',
   "self.helper.notify_late_requester(ExecutionKind::Service, requester).await;", "let _ = requester;", 'C04'),
 'c06-ack-invalidated-run': ('src/engine/target_actor/target_actor_helper.rs',
   "        self.executed = !self.to_execute;\n", "        self.executed = true;\n", 'C06'),
 'c06-drop-notify-invalidate': ('src/engine/target_actor/build_target_actor.rs',
   "                _ = self.helper.target_invalidated_events.next().fuse() => {\n                    self.helper.notify_invalidated(ExecutionKind::Build).await\n",
   "                _ = self.helper.target_invalidated_events.next().fuse() => {\n", 'C06'),
 'c06-dependent-not-blocked': ('src/engine/target_actor/build_target_actor.rs',
   "                            if kind == ExecutionKind::Build {\n                              self.helper.notify_invalidated(ExecutionKind::Build).await\n                            }",
   "                            if kind == ExecutionKind::Service {\n                              self.helper.notify_invalidated(ExecutionKind::Build).await\n                            }", 'C06'),
 'c06-watch-relay-drops-root': ('src/engine/mod.rs',
   "                        if let ActorId::Target(target_id) = dest {\n                            target_actors.send(&target_id, msg).await?;\n                        }",
   "                        if let ActorId::Target(target_id) = dest {\n                            if !matches!(msg, ActorInputMessage::Invalidated { .. }) { target_actors.send(&target_id, msg).await?; }\n                        }", 'C06'),
 'c07-ack-after-failure': ('src/engine/target_actor/build_target_actor.rs',
   "                        Err(e) => self.helper.notify_execution_failed(e).await,",
   "                        Err(e) => { self.helper.notify_execution_failed(e).await; self.helper.notify_success(ExecutionKind::Build).await; }", 'C07'),
 'c07-oneshot-logs-error': ('src/engine/mod.rs',
   "                        return Err(e.context(format!(\"An issue occurred with target {}\", target_id)));",
   "                        log::warn!(\"{} - {}\", target_id, e);", 'C07'),
 'c07-nonzero-is-success': ('src/engine/builder.rs',
   "            if !exit_status.success() {", "            if false && !exit_status.success() {", 'C07(BB)'),
 'c07-watch-returns-on-error': ('src/engine/mod.rs',
   "                        log::warn!(\"{} - {}\", target_id, e);\n                    },\n                    TargetActorOutputMessage::MessageActor { dest, msg } => {\n                        if let",
   "                        return Err(e.context(format!(\"{}\", target_id)));\n                    },\n                    TargetActorOutputMessage::MessageActor { dest, msg } => {\n                        if let", 'C07'),
 'c08-request-deps-every-time': ('src/engine/target_actor/build_target_actor.rs',
   "if inserted && self.helper.requesters[&ExecutionKind::Build].len() == 1 {", "if inserted {", 'C08?'),
 'c08-to-execute-not-cleared': ('src/engine/target_actor/target_actor_helper.rs',
   "    pub fn set_execution_started(&mut self) {\n        self.to_execute = false;", "    pub fn set_execution_started(&mut self) {\n        self.to_execute = self.requesters[&ExecutionKind::Build].len() > 1;", 'C08'),
 'c11-actual-always-true': ('src/engine/target_actor/build_target_actor.rs',
   "                                kind: ExecutionKind::Service,\n                                target_id: self.helper.target_id.clone(),\n                                actual: false,",
   "                                kind: ExecutionKind::Service,\n                                target_id: self.helper.target_id.clone(),\n                                actual: true,", 'C11 C20'),
 'c11-aggregate-drops-actual': ('src/engine/target_actor/aggregate_target_actor.rs',
   "                            if actual {\n                                dependencies.get_mut(&kind).unwrap().insert(target_id);\n                            }",
   "                            if actual && kind == ExecutionKind::Build {\n                                dependencies.get_mut(&kind).unwrap().insert(target_id);\n                            }", 'C11 C20'),
 'c11-restart-without-stop': ('src/engine/target_actor/service_target_actor.rs',
   "    async fn restart_service(&mut self) -> Result<()> {\n        self.stop_service().await;\n", "    async fn restart_service(&mut self) -> Result<()> {\n", 'C11'),
 'c11-oneshot-no-wait': ('src/engine/mod.rs',
   "    if !termination_event_received && !service_root_targets.is_empty() {", "    if false && !termination_event_received && !service_root_targets.is_empty() {", 'C11 C20'),
 'c20-empty-aggregate-no-ack': ('src/engine/target_actor/aggregate_target_actor.rs',
   "                                if self.helper.unavailable_dependencies[&kind].is_empty() {", "                                if self.helper.unavailable_dependencies[&kind].is_empty() && !self.helper.dependencies.is_empty() {", 'C20 C04'),
 'c20-aggregate-forwards-build-only': ('src/engine/target_actor/aggregate_target_actor.rs',
   "                                if is_first_insertion {\n                                    self.helper.request_dependencies(kind).await;",
   "                                if is_first_insertion && kind == ExecutionKind::Build {\n                                    self.helper.request_dependencies(kind).await;", 'C20 C04 C11'),
 'c10-no-kill-on-cancel': ('src/engine/builder.rs',
   "if let Err(e) = build_process.kill() {", "if let Err(e) = Ok::<(), std::io::Error>(()) {", 'C10'),
 'c10-skip-terminate-on-error': ('src/main.rs',
   "            target_actors.terminate().await;\n\n            result?;", "            result?;\n\n            target_actors.terminate().await;", 'C10'),
 'c10-no-stop-service-at-exit': ('src/engine/target_actor/service_target_actor.rs',
   "            }\n        }\n\n        self.stop_service().await;\n    }", "            }\n        }\n    }", 'C10 C11'),
 'c10-no-join': ('src/engine/target_actors.rs',
   "        future::join_all(self.target_actor_join_handles).await;\n", "", 'C10'),
 'c10-bounded-relay': ('src/main.rs',
   "let (target_actor_output_sender, target_actor_output_events) = channel::unbounded();", "let (target_actor_output_sender, target_actor_output_events) = channel::bounded(crate::DEFAULT_CHANNEL_CAP);", 'C04 C10'),
 'c12-filtered-deletes-path': ('src/clean.rs',
   "            if resource.extensions.is_some() {", "            if false && resource.extensions.is_some() {", 'C12'),
 'c12-clean-t-removes-workdir': ('src/main.rs',
   "            if requested_targets.is_some() {\n                for target in targets.values() {\n                    delete_saved_env_state(target.metadata()).await?;\n                }\n            } else {",
   "            if false {\n                for target in targets.values() {\n                    delete_saved_env_state(target.metadata()).await?;\n                }\n            } else {", 'C12 C18'),
 'c12-clean-no-state-delete': ('src/main.rs',
   "                    delete_saved_env_state(target.metadata()).await?;\n", "", 'C12'),
 'c12-follow-links': ('src/fs.rs',
   "    let walkdir = WalkDir::new(path);", "    let walkdir = WalkDir::new(path).follow_links(true);", 'C12 C15'),
 'c12-no-workdir-prune': ('src/fs.rs',
   "            .filter_entry(|e| !is_work_dir(e))\n", "", 'C12 C15'),
 'c15-extension-eq': ('src/domain.rs',
   "        extensions.iter().any(|ext| file_name.ends_with(ext))", "        extensions.iter().any(|ext| file.extension().is_some_and(|e| format!(\".{}\", e.to_string_lossy()) == *ext))", 'C15'),
 'c15-no-leading-dot': ('src/config/ir.rs',
   "                    if ext.starts_with('.') {\n                        ext\n                    } else {\n                        format!(\".{}\", ext)\n                    }", "                    ext", 'C15'),
 'c15-empty-list-matches-nothing': ('src/config/ir.rs',
   "        .filter(|extensions| !extensions.is_empty())\n", "", 'C15'),
 'c15-include-dirs': ('src/fs.rs',
   "                        .filter(|path| path.is_file())\n", "", 'C15'),
 'c15-prune-top-level-only': ('src/fs.rs',
   "            .filter_entry(|e| !is_work_dir(e))", "            .filter_entry(|e| !(e.depth() <= 1 && is_work_dir(e)))", 'C15'),
 'c05-delete-after-script': ('src/engine/incremental/mod.rs',
   "    storage::delete_saved_env_state(target).await?;\n\n    #[cfg(zinoma_verif)]\n    crate::verif::hooks::crash_point(\"deleted\", target);\n\n    let build_report = future.await?;\n",
   "    #[cfg(zinoma_verif)]\n    crate::verif::hooks::crash_point(\"deleted\", target);\n\n    let build_report = future.await?;\n    storage::delete_saved_env_state(target).await?;\n", 'C05'),
 'c05-no-delete': ('src/engine/incremental/mod.rs',
   "    storage::delete_saved_env_state(target).await?;\n\n    #[cfg(zinoma_verif)]\n    crate::verif::hooks::crash_point(\"deleted\", target);", "    #[cfg(zinoma_verif)]\n    crate::verif::hooks::crash_point(\"deleted\", target);", 'C05'),
 'c05-record-on-cancel': ('src/engine/incremental/mod.rs',
   "        BuildTerminationReport::Cancelled => Ok(IncrementalRunResult::Cancelled),",
   "        BuildTerminationReport::Cancelled => { if let Ok(Some(s)) = TargetEnvState::current(target_input, target_output).await { let _ = storage::save_env_state(target, s).await; } Ok(IncrementalRunResult::Cancelled) }", 'C05'),
 'c05-deserialize-from-file': ('src/engine/incremental/storage.rs',
   "            bincode::deserialize(&bytes)", "            bincode::deserialize_from(&bytes[..])", 'C05?'),
 'c05-corrupt-not-dropped': ('src/engine/incremental/storage.rs',
   "    result.ok()\n", "    Some(result.unwrap())\n", 'C05'),
 'c16-no-workdir-filter': ('src/engine/watcher.rs',
   "                            && !work_dir::is_in_work_dir(&path)\n", "", 'C16'),
 'c16-no-tmp-filter': ('src/engine/watcher.rs',
   "                        !is_tmp_editor_file(&path)\n                            && ", "                        ", 'C16'),
 'c16-ignore-extensions': ('src/engine/watcher.rs',
   "                            && domain::matches_extensions(path.as_path().into(), &extensions)\n", "", 'C16'),
 'c16-unwrap-back': ('src/engine/watcher.rs',
   "        Some(file_name) => file_name.to_string_lossy(),", "        Some(file_name) => file_name.to_str().unwrap().to_string(),", 'C16'),
 'c18-state-path-from-cwd': ('src/engine/incremental/storage.rs',
   "    work_dir::get_work_dir_path(&target.project_dir).join(format!(\"{}.checksums\", target))",
   "    work_dir::get_work_dir_path(&std::env::current_dir().map(PathBuf::from).unwrap_or_else(|_| target.project_dir.clone())).join(format!(\"{}.checksums\", target))", 'C18'),
 'c18-no-canonicalize': ('src/config/yaml/mod.rs',
   "    dunce::canonicalize(dir).map_err(|e| {", "    std::fs::metadata(dir).map(|_| dir.to_path_buf()).map_err(|e| {", 'C18?'),
}

def sh(cmd, **kw):
    return subprocess.run(cmd, shell=True, text=True, capture_output=True, **kw)

def main():
    if len(sys.argv) < 2 or sys.argv[1] == 'list':
        for k, v in M.items():
            print(k, '->', v[3])
        return
    name = sys.argv[1]
    ids = sys.argv[2:]
    f, old, new, exp = M[name]
    assert sh('git -C /repo status --porcelain').stdout.strip() == '', '/repo not clean'
    s = open(R + f).read()
    if s.count(old) != 1:
        print('MUTATION DOES NOT APPLY', name, s.count(old)); sys.exit(3)
    try:
        open(R + f, 'w').write(s.replace(old, new))
        for i in ids:
            r = sh(f'/verif/check {i}', env=dict(os.environ, ZV_VERIF_DIR='/verif'))
            lines = [l for l in r.stdout.splitlines() if l.startswith('VIOLATION') or l.startswith(i + ' ')]
            first = [l for l in r.stdout.splitlines() if l.startswith('  ') and not l.startswith('  [')][:1]
            print(f'{name:36s} {i}: exit={r.returncode} ' + ' | '.join(lines[:2] + first)[:300])
            if r.returncode == 2:
                print(r.stderr[-1500:])
    finally:
        sh('git -C /repo checkout -- .')
        sh('rm -rf /verif/replays/*/found')
        sh('git -C /verif checkout -- evidence 2>/dev/null')

main()
