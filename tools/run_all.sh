#!/bin/bash
# tools/run_all.sh [quick|thorough] [seed]: every check once; prints one line per check.
TIER=${1:-quick}; SEED=${2:-0}
cd "$(dirname "$0")/.."
for id in C01 C02 C03 C04 C05 C06 C07 C08 C09 C10 C11 C12 C13 C14 C15 C16 C17 C18 C19 C20; do
  s=$(date +%s)
  out=$(VERIF_SEED=$SEED ./check $id --tier $TIER 2>&1); rc=$?
  e=$(( $(date +%s) - s ))
  echo "$id rc=$rc ${e}s $(echo "$out" | grep -E "^$id " | head -1)"
  echo "$out" | grep -E "^VIOLATION|^KNOWN-FINDING|INFRASTRUCTURE|INCONCLUSIVE" | cut -c1-200
done
