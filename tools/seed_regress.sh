#!/bin/bash
# Re-runs the quick check of its own property against every stored seeded change.
cd /verif
for d in seeded/*/; do
  sid=$(basename $d); prop=${sid%%-*}
  tools/seed_verify.py --checks-only $sid $prop 2>&1 | grep " vs " | cut -c1-160
done
