#!/usr/bin/env python3
"""Confirms a seeded change delivered by a sub-agent and runs our checks against it.

usage: tools/seed_verify.py <ID> <check-id> [<check-id>...]
 - worktree /tmp/seed-<ID> (change applied), deliverables in /tmp/seed-out/<ID>/
 - confirms: patch == worktree diff, builds, 38 tests pass, demo FAILS with / PASSES without
 - applies the patch to /repo, runs ./check <check-id> (quick), ALWAYS reverts /repo
 - stores /verif/seeded/<ID>/{patch.diff,demo.sh,notes.md,meta.json}
"""
import subprocess, sys, os, json, shutil, time

def sh(cmd, cwd=None, timeout=3600):
    r = subprocess.run(cmd, shell=True, text=True, capture_output=True, cwd=cwd, timeout=timeout)
    return r.returncode, r.stdout + r.stderr

def checks_only(sid, checks):
    """Re-run checks against an already confirmed seed (patch taken from /verif/seeded/<id>)."""
    d = f'/verif/seeded/{sid}'
    meta = json.load(open(f'{d}/meta.json'))
    assert sh('git -C /repo status --porcelain')[1].strip() == '', '/repo not clean'
    try:
        rc, o = sh(f'git -C /repo apply {d}/patch.diff')
        assert rc == 0, o
        for c in checks:
            t0 = time.time()
            rc, o = sh(f'/verif/check {c}', timeout=7200)
            lines = [l for l in o.splitlines() if l.startswith('VIOLATION') or l.startswith(c + ' ')]
            first = [l.strip() for l in o.splitlines() if l.startswith('  ') and not l.startswith('  [')][:2]
            prev = meta['checks'].get(c)
            meta['checks'][c] = {'exit': rc, 'caught': rc == 1, 'summary': lines[:3], 'first_violation': first, 'secs': round(time.time()-t0)}
            if prev and not prev.get('caught') and rc == 1:
                meta['checks'][c]['missed_before_strengthening'] = True
            print(f'{sid} vs {c}: exit={rc} {" | ".join(lines[:2])[:200]} {first[:1]}')
    finally:
        sh('git -C /repo checkout -- .')
        sh('rm -rf /verif/replays/*/found')
        sh('git -C /verif checkout -- evidence 2>/dev/null')
    json.dump(meta, open(f'{d}/meta.json', 'w'), indent=1)

def main():
    if sys.argv[1] == '--checks-only':
        return checks_only(sys.argv[2], sys.argv[3:])
    sid = sys.argv[1]
    checks = sys.argv[2:]
    prop = sid.split('-')[0]
    wt = f'/tmp/seed-{sid}'
    out = f'/tmp/seed-out/{sid}'
    meta = {'id': sid, 'breaks_property': prop, 'confirmed': {}, 'checks': {}}
    patch = open(f'{out}/patch.diff').read()
    rc, diff = sh('git diff', cwd=wt)
    meta['confirmed']['patch_matches_worktree'] = (diff.strip() == patch.strip())
    if not meta['confirmed']['patch_matches_worktree']:
        # make the worktree match the delivered patch
        sh('git checkout -- .', cwd=wt)
        rc, o = sh(f'git apply {out}/patch.diff', cwd=wt)
        meta['confirmed']['patch_reapplied'] = (rc == 0)
    meta['confirmed']['touches_only_src'] = all(l.split(' b/')[-1].startswith('src/') for l in patch.splitlines() if l.startswith('diff --git'))
    rc, o = sh('cargo build --offline 2>&1 | tail -3', cwd=wt)
    meta['confirmed']['builds'] = ('Finished' in o)
    rc, o = sh('cargo test --workspace --no-fail-fast --offline 2>&1 | grep "^test result"', cwd=wt)
    meta['confirmed']['tests_with_change'] = o.strip().splitlines()
    tests_ok = o.count('test result: ok') == 2 and ' 0 failed' in o
    meta['confirmed']['tests_pass_with_change'] = tests_ok
    t0 = time.time()
    rc1, o1 = sh(f'bash {out}/demo.sh {wt}/target/debug/zinoma', timeout=1800)
    meta['confirmed']['demo_with_change'] = {'exit': rc1, 'tail': o1.strip().splitlines()[-3:], 'secs': round(time.time()-t0)}
    sh(f'git apply -R {out}/patch.diff', cwd=wt)
    sh('cargo build --offline', cwd=wt)
    t0 = time.time()
    rc2, o2 = sh(f'bash {out}/demo.sh {wt}/target/debug/zinoma', timeout=1800)
    meta['confirmed']['demo_without_change'] = {'exit': rc2, 'tail': o2.strip().splitlines()[-3:], 'secs': round(time.time()-t0)}
    sh(f'git apply {out}/patch.diff', cwd=wt)
    meta['confirmed']['demo_discriminates'] = (rc1 != 0 and rc2 == 0)
    # our checks against it (none given: confirmation only, /repo is not touched)
    if not checks:
        return store(sid, out, meta)
    assert sh('git -C /repo status --porcelain')[1].strip() == '', '/repo not clean'
    try:
        rc, o = sh(f'git -C /repo apply {out}/patch.diff')
        meta['applies_to_repo'] = (rc == 0)
        for c in checks:
            t0 = time.time()
            rc, o = sh(f'/verif/check {c}', timeout=7200)
            lines = [l for l in o.splitlines() if l.startswith('VIOLATION') or l.startswith(c + ' ')]
            first = [l.strip() for l in o.splitlines() if l.startswith('  ') and not l.startswith('  [')][:2]
            meta['checks'][c] = {'exit': rc, 'caught': rc == 1, 'summary': lines[:3], 'first_violation': first, 'secs': round(time.time()-t0)}
            print(f'{sid} vs {c}: exit={rc} {" | ".join(lines[:2])[:200]} {first[:1]}')
    finally:
        sh('git -C /repo checkout -- .')
        sh('rm -rf /verif/replays/*/found')
        sh('git -C /verif checkout -- evidence 2>/dev/null')
    store(sid, out, meta)

def store(sid, out, meta):
    d = f'/verif/seeded/{sid}'
    os.makedirs(d, exist_ok=True)
    for f in ['patch.diff', 'demo.sh', 'notes.md']:
        if os.path.exists(f'{out}/{f}'):
            shutil.copy(f'{out}/{f}', d)
    meta['needs_to_manifest'] = 'see notes.md'
    meta['what_i_ran'] = 'tools/seed_verify.py: patch vs worktree diff; cargo build; cargo test --workspace (38 tests); demo.sh with and without the change; ./check <ids> with the patch applied to /repo (then reverted)'
    json.dump(meta, open(f'{d}/meta.json', 'w'), indent=1)
    print(json.dumps(meta['confirmed'], indent=1)[:1500])

main()
