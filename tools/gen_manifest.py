#!/usr/bin/env python3
"""Generates /verif/MANIFEST.json from the table below (keeps it valid at all times)."""
import json, subprocess

CLAIMED = {
 # id: (level, technique, text, note, design_ref)
 'C01': ('exploration', 'property-based testing over generated graphs and schedules (proptest, SIM engine: real actor code on a harness-owned scheduler) with a history-invariant oracle',
         'Generated search over graphs x requested sets x schedules (message delivery, script completion, file-change notices) against a readiness / latest-word invariant checked at every start; no exhaustiveness claimed.',
         'Actor handlers are atomic between awaits in SIM; "start" = beginning of the build cycle (where the start condition is evaluated) and the script spawn.', 'DESIGN.md 4/C01'),
 'C02': ('exploration', 'property-based testing (proptest): generated declarations, trees and edit histories around the real incremental step, reference snapshot model as oracle (skipped => unchanged)',
         'Generated histories between two calls of the real incremental::run on real scratch trees, decided against an independent snapshot model.',
         'In-crate call of the incremental runner with a harness future standing for the script; a BB part runs the same histories through the real binary and a BB-wide part records many states concurrently; links to regular files are part of the model (read through the link).', 'DESIGN.md 4/C02'),
 'C03': ('exploration', 'property-based testing (proptest): resource-preserving histories and repeated invocations of the real incremental step; same reference model (unchanged => skipped)',
         'Generated layouts (multi-project, colliding command text / relative paths, inherited resources) x neutral histories x 2-4 invocations.',
         'Premise (state storable) evaluated by the harness.', 'DESIGN.md 4/C03'),
 'C04': ('exploration', 'property-based testing (proptest) with a deadlock oracle on controlled schedules (SIM)',
         'Generated graphs x schedules; liveness turned into safety: a state with nothing deliverable, no script running and unexecuted targets is a deadlock.',
         'SIM does not exercise queue capacities (relay unbounded there).', 'DESIGN.md 4/C04'),
 'C05': ('fault_enumeration', 'fault injection driven by proptest generators (crash points via guarded hooks, signals, exit codes, partial writes) plus mutation-based fuzzing of real state files with an independent-decoder differential; exhaustive offset enumeration in the thorough tier',
         'Every fault class of the build cycle is injected against the real binary and the next invocation is judged; write offsets / truncation offsets / one bit flip per byte are enumerated completely in the thorough tier (flagged exhaustive for those sub-spaces only).',
         'Partial write emulated as prefix + abort; RLIMIT_AS 4 GiB on every child.', 'DESIGN.md 4/C05'),
 'C06': ('exploration', 'property-based testing (proptest) of watch-mode histories against a version-capture reference model (SIM)',
         'Generated graphs x schedules x file-change notices; at final quiescence everything not blocked by a failure must be up to date in the model.',
         'Incremental step replaced by the model in SIM.', 'DESIGN.md 4/C06'),
 'C07': ('exploration', 'property-based testing (proptest) over failing subsets and schedules (SIM), invariant oracle',
         'Generated graphs x failing subsets x schedules; error must surface naming a failed target and nothing above a failed target starts.',
         'Virtual processes with chosen outcome.', 'DESIGN.md 4/C07'),
 'C08': ('exploration', 'property-based testing (proptest) with an exactly-once multiset oracle over the closure (SIM)',
         'Generated graphs with shared dependencies x duplicate requests x schedules.',
         'Closure computed by the harness from the generated graph.', 'DESIGN.md 4/C08'),
 'C09': ('exploration', 'property-based testing (proptest): differential of the real loader+resolver against an independent reference closure / cycle resolver over generated project sets',
         'Generated project files with valid and broken reference graphs; verdict and resolved set compared.',
         'Reference resolver written from the statement.', 'DESIGN.md 4/C09'),
 'C10': ('exploration', 'property-based testing (proptest) of black-box exit scenarios: generated graph x exit cause x instant (rendezvous), latency bound and /proc marker-scan oracle',
         'Generated scenarios against the real binary with real signals and processes, including processes replaced after input changes in watch mode and 1/2/4/default runtime threads.',
         'One wall-clock bound (5 s vs scripts that sleep 28 h); for non-exec scripts only the shells zinoma spawned are required to be gone.', 'DESIGN.md 4/C10'),
 'C11': ('exploration', 'property-based testing (proptest) over service/build/aggregate graphs and schedules (SIM), keep-alive and alternation oracles',
         'Generated graphs x requested subsets x schedules (+ notices in watch mode).',
         'Virtual service processes (spawn/stop observed through hooks).', 'DESIGN.md 4/C11'),
 'C12': ('exploration', 'property-based testing (proptest) of generated trees and output declarations against the real binary; two-sided snapshot-diff oracle vs a reference expected-deleted set',
         'Generated projects/trees x --clean invocations; everything expected gone is gone and everything else is byte-identical.',
         'Listed output paths are never symlinks themselves; symlink entries to files matching a filter may go or stay.', 'DESIGN.md 4/C12'),
 'C13': ('exploration', 'property-based testing (proptest): producer/consumer arrangements, structural expectation on the resolver output plus behavioural skip/run model on the real incremental step',
         'Generated arrangements x edits of producer outputs and look-alikes.',
         'Consumer exercised through incremental::run; producer not executed in the INC part.', 'DESIGN.md 4/C13'),
 'C14': ('exploration', 'property-based testing (proptest) of grammar-generated project sets with injected defects against an independent validator; determinism over repeated loads',
         'Generated project sets with defects of known verdict; accept/reject and meaning of names compared over 8 loads.',
         'Validator over the generated AST; error texts not compared.', 'DESIGN.md 4/C14'),
 'C15': ('exploration', 'property-based testing (proptest): generated trees and declarations, real lister vs independent reference walker (regular files and link entries to regular files MUST be denoted, nothing else may be), watcher predicate agreement',
         'Generated trees with odd names, .zinoma at any depth, links to files, to directories, outside the tree and dangling.',
         'Listed paths are never links themselves and never lie inside or below a directory named .zinoma (no behaviour is pinned for projects located below such a directory).', 'DESIGN.md 4/C15'),
 'C19': ('exploration', 'property-based testing (proptest): generated project sets with overlapping target names; name-set equality, spelling and bare-reference oracles on the real loader/resolver',
         'Generated project sets x requested spellings x references.',
         'In-crate loader and resolver.', 'DESIGN.md 4/C19'),
 'C16': ('exploration', 'property-based testing (proptest) of operation sequences under a real TargetWatcher (inotify), barrier-ordered expectations, thread-panic hook, survival probe',
         'Generated file-name classes x operation sequences beneath watched directories.',
         'Barrier events through hook H7; groups always have an extension filter.', 'DESIGN.md 4/C16'),
 'C18': ('exploration', 'model-based (stateful) property testing: generated invocation histories against a per-target recorded-snapshot reference model, real binary',
         'Generated histories over entry projects, spellings, relative/absolute project paths, --clean and failures.',
         'Targets in flight during a failing invocation are "unknown" until re-observed.', 'DESIGN.md 4/C18'),
 'C20': ('exploration', 'metamorphic property testing (proptest): aggregate vs its dependencies, on controlled schedules (SIM) and through the real binary (BB)',
         'Pairs of runs compared on sets and verdicts; wide aggregates (up to 1 500 members) against their members through the real binary.',
         'With a failing member only the verdict is compared.', 'DESIGN.md 4/C20'),
 'C17': ('exploration', 'property-based testing (proptest) with withheld completions (SIM): ready => started at message-quiescent points',
         'Generated graphs x schedules in which scripts stay running as long as possible.',
         'One-shot runs without failures; BB parts add rendezvous antichains, a slow hub check and 9-120 independent targets.', 'DESIGN.md 4/C17'),
}
ENGINE = {'C01':'SIM+BB','C02':'INC+BB','C03':'INC+BB','C04':'SIM+BB','C05':'BB+FUZZ','C06':'SIM+BB','C07':'SIM+BB','C08':'SIM+BB','C09':'INC+BB','C10':'BB','C11':'SIM+BB','C12':'BB','C13':'INC+BB','C14':'INC+BB+FUZZ','C15':'INC','C16':'INC+BB','C17':'SIM+BB','C18':'BB','C19':'INC+BB','C20':'SIM+BB'}
ALL = [json.loads(l)['id'] for l in open('/verif/properties.jsonl')]
NA_REASON = 'check not built yet in this session (work in progress; to be decided with property-based testing as designed in DESIGN.md)'

def main():
    commits = subprocess.run("git -C /repo log --format=%h --grep='^verif hooks'", shell=True, text=True, capture_output=True).stdout.split()
    m = {
      'version': 1,
      'setup_cmd': 'cd /verif/harness && CARGO_NET_OFFLINE=true cargo build --release --offline && cd fuzz && CARGO_NET_OFFLINE=true RUSTFLAGS="--cfg zinoma_verif" cargo fuzz build -s none',
      'hooks': {
        'guard': 'cfg(zinoma_verif)',
        'enable': 'RUSTFLAGS="--cfg zinoma_verif" with ZINOMA_VERIF_HARNESS=/verif/harness/incrate (set by /verif/harness/.cargo/config.toml); the harness package compiles /repo/src/main.rs as its library root',
        'baseline_off_cmd': 'cd /repo && cargo test --workspace --no-fail-fast --offline',
        'source_commits': commits,
        'add_only': True,
      },
      'engines': [
        {'name': 'BB', 'path': 'harness/incrate/verif/bb.rs', 'serves_properties': ['C01','C02','C03','C04','C05','C06','C07','C08','C09','C10','C11','C12','C13','C14','C16','C17','C18','C19','C20'], 'kind_free_text': 'the real binary (repo main()) on generated projects; trace files, /proc scans, snapshots; cases generated and shrunk by proptest'},
        {'name': 'INC', 'path': 'harness/incrate/verif/inc_incr.rs', 'serves_properties': ['C02','C03','C09','C13','C14','C15','C19'], 'kind_free_text': 'real functions called in-crate (loader, resolver, lister, incremental::run) on generated scratch trees; proptest generation and shrinking'},
        {'name': 'FUZZ', 'path': 'harness/fuzz', 'serves_properties': ['C05','C14'], 'kind_free_text': 'cargo-fuzz / libFuzzer targets (stable toolchain, -s none) calling the loader and the state-file reader in-process with the oracle inside the target'},
        {'name': 'SIM', 'path': 'harness/incrate/verif/sim.rs', 'serves_properties': ['C01','C04','C06','C07','C08','C11','C17','C20'], 'kind_free_text': 'real actor code polled by a single-threaded executor; virtual processes; generated schedules (proptest)'},
      ],
      'checks': [],
      'not_applicable': [],
      'notes': 'All checks: ./check <ID> [--tier quick|thorough] [--replay file]; VERIF_SEED honoured; exit 2 = infrastructure/inconclusive only.',
    }
    for pid in ALL:
        if pid in CLAIMED:
            level, tech, text, note, ref = CLAIMED[pid]
            m['checks'].append({
              'property_id': pid,
              'quick_cmd': f'./check {pid} --tier quick',
              'thorough_cmd': f'./check {pid} --tier thorough',
              'evidence_file': f'/verif/evidence/{pid}.json',
              'replay_cmd_template': f'./check {pid} --replay {{path}}',
              'engine': ENGINE.get(pid,'SIM'),
              'level_claimed': {'category': level, 'text': text, 'design_ref': ref},
              'level_note': note,
              'technique': tech,
            })
        else:
            m['not_applicable'].append({'property_id': pid, 'reason': NA_REASON})
    json.dump(m, open('/verif/MANIFEST.json', 'w'), indent=1)
    print('claimed', len(m['checks']), 'n/a', len(m['not_applicable']))
main()
